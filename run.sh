#!/bin/bash
# usage: ./run.sh <ID> <quick|thorough>   |   ./run.sh replay <file>
# builds the harness against /repo's current working tree (path dependencies) and runs one check.
# exit 0 = property held on everything explored; 1 = VIOLATION; 2 = machinery error (never a verdict)
set -u
cd "$(dirname "$0")/harness" || exit 2
export CARGO_NET_OFFLINE=true
mkdir -p /verif/.cache
LOG=/verif/.cache/build.log
( flock 9
  if ! cargo build --offline >"$LOG" 2>&1; then
    echo "MACHINERY-ERROR: harness build failed (see $LOG)" >&2
    tail -40 "$LOG" >&2
    exit 2
  fi
) 9>/verif/.cache/build.lock || exit 2
BIN=/verif/.cache/target/debug/cte-mc
cd /verif
ulimit -c 0
exec "$BIN" "$@"
