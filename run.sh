#!/bin/bash
# usage: ./run.sh <ID> <quick|thorough>   |   ./run.sh replay <file>
# builds the harness against /repo's current working tree (path dependencies) and runs one check.
# exit 0 = property held on everything explored; 1 = VIOLATION; 2 = machinery error (never a verdict)
set -u
V="$(cd "$(dirname "$0")" && pwd)"
export VERIF_DIR="$V"
export CARGO_NET_OFFLINE=true
mkdir -p "$V/.cache"
LOG="$V/.cache/build.log"
cd "$V/harness" || exit 2
[ -f Cargo.lock ] || cp /repo/Cargo.lock Cargo.lock
( flock 9
  if ! cargo build --offline >"$LOG" 2>&1; then
    echo "MACHINERY-ERROR: harness build failed (see $LOG)" >&2
    tail -40 "$LOG" >&2
    exit 2
  fi
  # run from a private copy so that a concurrent rebuild cannot swap the binary under a running check
  mkdir -p "$V/.cache/bin"
  cp -f "$V/.cache/target/debug/cte-mc" "$V/.cache/bin/cte-mc.$$"
) 9>"$V/.cache/build.lock" || exit 2
BIN="$V/.cache/bin/cte-mc.$$"
cd "$V"
ulimit -c 0
"$BIN" "$@"
code=$?
rm -f "$BIN"
exit $code
