//! C03 — conversion preserves geometry and orientation conventions (E1 over generated buildings + real projects)

use crate::common::*;
use crate::corpus::{self, Outcome};
use crate::geo::Pose;
use crate::projgen::{self, Spec, P3};
use bemodel::*;
use serde_json::{json, Value};
use std::collections::HashSet;

fn world_corners(g: &WallGeom) -> Option<Vec<P3>> {
    let m = g.to_global_coords_matrix()?;
    Some(g.polygon.iter().map(|p| { let q = m * point![p.x, p.y, 0.0]; [q.x as f64, q.y as f64, q.z as f64] }).collect())
}

fn dist(a: &P3, b: &P3) -> f64 {
    ((a[0] - b[0]).powi(2) + (a[1] - b[1]).powi(2) + (a[2] - b[2]).powi(2)).sqrt()
}

/// max over expected corners of the distance to the nearest code corner (and vice versa)
fn set_distance(a: &[P3], b: &[P3]) -> f64 {
    let d1 = a.iter().map(|p| b.iter().map(|q| dist(p, q)).fold(f64::INFINITY, f64::min)).fold(0.0, f64::max);
    let d2 = b.iter().map(|p| a.iter().map(|q| dist(p, q)).fold(f64::INFINITY, f64::min)).fold(0.0, f64::max);
    d1.max(d2)
}

/// distance between two closed corner sequences as figures: best cyclic shift, either sense; infinite if the counts differ
fn cyclic_distance(a: &[P3], b: &[P3]) -> f64 {
    if a.len() != b.len() || a.is_empty() {
        return f64::INFINITY;
    }
    let n = a.len();
    let mut best = f64::INFINITY;
    for shift in 0..n {
        for rev in [false, true] {
            let d = (0..n).map(|i| dist(&a[i], &b[if rev { (shift + n - i) % n } else { (shift + i) % n }])).fold(0.0, f64::max);
            best = best.min(d);
        }
    }
    best
}

fn tol(pts: &[P3]) -> f64 {
    0.01 + 1e-4 * pts.iter().flat_map(|p| p.iter()).fold(0.0f64, |m, c| m.max(c.abs()))
}

fn convert_spec(s: &Spec) -> Result<Model, String> {
    match corpus::convert_text(&projgen::ctehexml_text(s), false) {
        Outcome::Ok(m) => Ok(m),
        Outcome::Err(e) => Err(format!("error: {}", e)),
        Outcome::Panic(p) => Err(format!("panic: {}", p)),
    }
}

fn class_of(s: &Spec) -> String {
    let rot = s.space_az != 0.0;
    let off = s.offset != (0.0, 0.0);
    match (rot, off) {
        (true, true) => "rotated+offset space".into(),
        (true, false) => "rotated space".into(),
        (false, true) => "offset space".into(),
        _ => "plain space".into(),
    }
}

#[derive(Default)]
struct Acc {
    n: u64,
    walls: u64,
    maxd: f64,
    outcomes: HashSet<u64>,
}

fn check_spec(ctx: &Ctx, s: &Spec, acc: &mut Acc) -> Option<Model> {
    acc.n += 1;
    let case = || json!({"part": "generated", "spec": format!("{:?}", s)});
    let m = match convert_spec(s) {
        Ok(m) => m,
        Err(e) => {
            ctx.violation(&format!("convert:generated-building-rejected:{}", e.split(':').next().unwrap_or("")), &format!("{}", e.chars().take(200).collect::<String>()), json!({"case": case(), "bdl": projgen::geometry_bdl(s)}));
            return None;
        }
    };
    let cls = class_of(s);
    for rw in projgen::reference(s) {
        let Some(w) = m.walls.iter().find(|w| w.name == rw.name) else {
            ctx.violation("geometry:wall-missing", &format!("wall {} not in the converted model", rw.name), case());
            continue;
        };
        acc.walls += 1;
        let Some(got) = world_corners(&w.geometry) else {
            ctx.violation("geometry:no-position", &format!("wall {} has no position", rw.name), case());
            continue;
        };
        let d = set_distance(&rw.corners, &got);
        if s.space_az == 0.0 {
            acc.maxd = acc.maxd.max(if d.is_finite() { d } else { 0.0 });
        }
        if d > tol(&rw.corners) {
            ctx.violation(&format!("geometry:position:{}:{}", rw.kind, cls), &format!("wall {}: corners off by {:.3} m (expected {:?}, converted {:?})", rw.name, d, rw.corners, got), json!({"case": case(), "wall": rw.name}));
        }
        let a = HasSurface::area(&w.geometry.polygon) as f64;
        if (a - rw.area).abs() > 1e-3 * rw.area + 1e-3 {
            ctx.violation(&format!("geometry:area:{}", rw.kind), &format!("wall {}: area {} expected {:.4}", rw.name, a, rw.area), json!({"case": case(), "wall": rw.name}));
        }
        if let Some(n) = rw.normal {
            let g = HasSurface::normal(&w.geometry);
            let dotp = g.x as f64 * n[0] + g.y as f64 * n[1] + g.z as f64 * n[2];
            if dotp < 0.999 {
                ctx.violation(&format!("geometry:outward-normal:{}:{}", rw.kind, cls), &format!("wall {}: normal {:?} expected {:?}", rw.name, g, n), json!({"case": case(), "wall": rw.name}));
            }
        }
        acc.outcomes.insert(hash64(&format!("{:?}", got.iter().map(|p| ((p[0] * 100.0).round() as i64, (p[1] * 100.0).round() as i64, (p[2] * 100.0).round() as i64)).collect::<Vec<_>>())));
    }
    // window
    if s.window > 0 {
        match m.windows.iter().find(|v| v.name == format!("{}_V", projgen::wall_name(0, 0))) {
            Some(v) => {
                let g = &v.geometry;
                let exp_sb = if s.window == 2 { 0.2 } else { 0.0 };
                if g.position.map(|p| (p.x, p.y)) != Some((projgen::WIN.0, projgen::WIN.1)) || g.width != projgen::WIN.2 || g.height != projgen::WIN.3 || g.setback != exp_sb {
                    ctx.violation("geometry:window", &format!("window geometry {:?} expected x,y,w,h = {:?} setback {}", g, projgen::WIN, exp_sb), case());
                }
                if v.wall != m.walls.iter().find(|w| w.name == projgen::wall_name(0, 0)).map(|w| w.id).unwrap_or_default() {
                    ctx.violation("geometry:window-wall", "window is not attached to its wall", case());
                }
            }
            None => ctx.violation("geometry:window-missing", "window not converted", case()),
        }
    }
    // shade
    if let Some(exp) = projgen::reference_shade(s) {
        match m.shades.iter().find(|x| x.name == "Sombra001") {
            Some(sh) => match world_corners(&sh.geometry) {
                Some(got) => {
                    // as a figure: the corners in their order around the outline (any starting corner, either sense)
                    let d = cyclic_distance(&exp, &got);
                    if d > tol(&exp) {
                        ctx.violation(&format!("geometry:shade:{}", ["", "rectangle", "vertices-vertical", "vertices-45", "vertices-horizontal", "rectangle-facing-down", "rectangle-facing-up", "rectangle-sloped", "vertices-twelve-corners"][s.shade]), &format!("shade corners off by {:.3} m (expected {:?}, converted {:?})", d, exp, got), case());
                    }
                }
                None => ctx.violation("geometry:shade-no-position", "shade without position", case()),
            },
            None => ctx.violation("geometry:shade-missing", "shade not converted", case()),
        }
    }
    Some(m)
}

fn rot_z_cw(p: &P3, deg: f64) -> P3 {
    let a = (-deg).to_radians();
    [p[0] * a.cos() - p[1] * a.sin(), p[0] * a.sin() + p[1] * a.cos(), p[2]]
}

/// rotation covariance between two conversions of the same project whose global deviations differ by theta
fn check_covariance(ctx: &Ctx, m0: &Model, m1: &Model, theta: f64, case: &dyn Fn() -> Value) {
    for (w0, w1) in m0.walls.iter().zip(m1.walls.iter()) {
        if w0.name != w1.name {
            ctx.violation("rotation:element-order", "walls differ between the two conversions", case());
            return;
        }
        if let (Some(c0), Some(c1)) = (world_corners(&w0.geometry), world_corners(&w1.geometry)) {
            let exp: Vec<P3> = c0.iter().map(|p| rot_z_cw(p, theta)).collect();
            let d = set_distance(&exp, &c1);
            if d > tol(&exp) + 0.02 {
                ctx.violation("rotation:positions", &format!("wall {}: after adding {} degrees of deviation corners are {:.3} m away from the rotated original", w0.name, theta, d), case());
                return;
            }
        }
        // azimuth shift (vertical / tilted elements only)
        let t = crate::ind::tilt_class(w0.geometry.tilt as f64);
        if t == crate::ind::TiltC::Side {
            let shift = (w1.geometry.azimuth as f64 - w0.geometry.azimuth as f64 + theta).rem_euclid(360.0);
            let shift = shift.min(360.0 - shift);
            if shift > 0.02 {
                ctx.violation("rotation:azimuth", &format!("wall {}: azimuth {} -> {} for a deviation change of {} (expected shift {})", w0.name, w0.geometry.azimuth, w1.geometry.azimuth, theta, -theta), case());
                return;
            }
        }
        if (HasSurface::area(&w0.geometry.polygon) - HasSurface::area(&w1.geometry.polygon)).abs() > 1e-3 {
            ctx.violation("rotation:area", &format!("wall {} area changes under rotation", w0.name), case());
        }
    }
    for (s0, s1) in m0.shades.iter().zip(m1.shades.iter()) {
        if let (Some(c0), Some(c1)) = (world_corners(&s0.geometry), world_corners(&s1.geometry)) {
            let exp: Vec<P3> = c0.iter().map(|p| rot_z_cw(p, theta)).collect();
            let d = set_distance(&exp, &c1);
            if d > tol(&exp) + 0.02 {
                ctx.violation("rotation:shade-positions", &format!("shade {}: {:.3} m away from the rotated original after adding {} degrees", s0.name, d, theta), case());
                return;
            }
        }
    }
    // indicators that must not change
    let (i0, i1) = (catch(std::panic::AssertUnwindSafe(|| m0.energy_indicators())), catch(std::panic::AssertUnwindSafe(|| m1.energy_indicators())));
    if let (Ok(a), Ok(b)) = (i0, i1) {
        let pairs = [("area_ref", a.area_ref, b.area_ref), ("vol_env_net", a.vol_env_net, b.vol_env_net), ("vol_env_gross", a.vol_env_gross, b.vol_env_gross), ("K", a.K_data.K, b.K_data.K), ("n50", a.n50_data.n50, b.n50_data.n50)];
        for (n, x, y) in pairs {
            if !close(x as f64, y as f64, 1e-4, 1e-4) {
                ctx.violation(&format!("rotation:indicator:{}", n), &format!("{} changes from {} to {} when the building is turned by {}", n, x, y, theta), case());
            }
        }
        for (id, w) in &a.props.walls {
            if let Some(w2) = b.props.walls.get(id).or_else(|| {
                // ids depend on the definition only, so they are equal; fall back to position in map
                None
            }) {
                if w.u_value != w2.u_value {
                    ctx.violation("rotation:u_value", &format!("U of a wall changes from {:?} to {:?} under rotation", w.u_value, w2.u_value), case());
                    break;
                }
            }
        }
    }
}

// ---------------------------------------------------------------- real projects: SPACE-Vn walls against the BDL conventions

struct RealSpace {
    name: String,
    x: f64,
    y: f64,
    z: f64,
    az: f64,
    height: f64,
    poly: Vec<(f64, f64)>,
}

fn real_reference(text: &str, is_cte: bool) -> Option<(f64, Vec<RealSpace>, Vec<(String, String, usize)>, Vec<(String, f64)>)> {
    // returns (global deviation, spaces, walls (name, space, vertex index))
    let bdl = if is_cte {
        text.to_string()
    } else {
        let i = text.find("<EntradaGraficaLIDER>")? + "<EntradaGraficaLIDER>".len();
        let j = text.find("</EntradaGraficaLIDER>")?;
        text[i..j].trim().trim_start_matches("<![CDATA[").trim_end_matches("]]>").to_string()
    };
    let lx = crate::bdl::lex(&bdl);
    let num = |b: &crate::bdl::RawBlock, k: &str| -> Option<f64> { b.attrs.iter().find(|(a, _)| a == k).and_then(|(_, v)| v.trim().trim_matches('"').parse::<f64>().ok()) };
    let st = |b: &crate::bdl::RawBlock, k: &str| -> Option<String> { b.attrs.iter().find(|(a, _)| a == k).map(|(_, v)| v.trim().trim_matches('"').trim().to_string()) };
    let mut polys: std::collections::HashMap<String, Vec<(f64, f64)>> = Default::default();
    let mut floors: std::collections::HashMap<String, (f64, f64)> = Default::default();
    let mut dev = 0.0;
    for b in &lx.blocks {
        match b.btype.as_str() {
            "POLYGON" => {
                let mut v = vec![];
                for i in 1.. {
                    match b.attrs.iter().find(|(a, _)| *a == format!("V{}", i)) {
                        Some((_, val)) => {
                            let nums: Vec<f64> = val.trim_matches(|c| c == '(' || c == ')' || c == ' ').split(',').filter_map(|x| x.trim().parse().ok()).collect();
                            if nums.len() == 2 {
                                v.push((nums[0], nums[1]));
                            }
                        }
                        None => break,
                    }
                }
                polys.insert(b.name.clone(), v);
            }
            "FLOOR" => {
                floors.insert(b.name.clone(), (num(b, "Z").unwrap_or(0.0), num(b, "SPACE-HEIGHT").unwrap_or(0.0)));
            }
            "BUILD-PARAMETERS" => dev = num(b, "AZIMUTH").unwrap_or(0.0),
            _ => {}
        }
    }
    let mut spaces = vec![];
    let mut walls = vec![];
    // opaque elements that carry a polygon of their own: (name, area of that polygon)
    let mut own_polys: Vec<(String, f64)> = vec![];
    let shoelace = |p: &Vec<(f64, f64)>| -> f64 { (0..p.len()).map(|i| p[i].0 * p[(i + 1) % p.len()].1 - p[i].1 * p[(i + 1) % p.len()].0).sum::<f64>().abs() / 2.0 };
    let (mut cur_floor, mut cur_space) = (String::new(), String::new());
    for b in &lx.blocks {
        if ["EXTERIOR-WALL", "INTERIOR-WALL", "UNDERGROUND-WALL", "ROOF"].contains(&b.btype.as_str()) {
            if let Some(p) = st(b, "POLYGON").and_then(|n| polys.get(&n)) {
                if p.len() >= 3 {
                    own_polys.push((b.name.clone(), shoelace(p)));
                }
            }
        }
        match b.btype.as_str() {
            "FLOOR" => cur_floor = b.name.clone(),
            "SPACE" => {
                cur_space = b.name.clone();
                let (fz, fh) = floors.get(&cur_floor).copied().unwrap_or((0.0, 0.0));
                let poly = polys.get(&st(b, "POLYGON").unwrap_or_default()).cloned().unwrap_or_default();
                spaces.push(RealSpace { name: b.name.clone(), x: num(b, "X").unwrap_or(0.0), y: num(b, "Y").unwrap_or(0.0), z: num(b, "Z").unwrap_or(0.0) + fz, az: num(b, "AZIMUTH").unwrap_or(0.0), height: fh, poly });
            }
            "EXTERIOR-WALL" | "INTERIOR-WALL" | "UNDERGROUND-WALL" => {
                if let Some(loc) = st(b, "LOCATION") {
                    if let Some(v) = loc.strip_prefix("SPACE-V").and_then(|x| x.parse::<usize>().ok()) {
                        if num(b, "X").unwrap_or(0.0) == 0.0 && num(b, "Y").unwrap_or(0.0) == 0.0 && num(b, "Z").unwrap_or(0.0) == 0.0 {
                            walls.push((b.name.clone(), cur_space.clone(), v));
                        }
                    }
                }
            }
            _ => {}
        }
    }
    Some((dev, spaces, walls, own_polys))
}

fn check_real(ctx: &Ctx, path: &str, is_cte: bool, acc: &mut Acc) {
    let text = if is_cte { corpus::read_latin1(path) } else { corpus::read_utf8(path) };
    let Outcome::Ok(m) = corpus::convert_text(&text, is_cte) else { return };
    let Some((dev, spaces, walls, own_polys)) = real_reference(&text, is_cte) else { return };
    acc.n += 1;
    let fname = path.rsplit('/').next().unwrap().to_string();
    // every element defined by a polygon of its own has the area of that polygon
    for (wname, a_src) in &own_polys {
        let Some(w) = m.walls.iter().find(|w| w.name == *wname) else { continue };
        let a = HasSurface::area(&w.geometry.polygon) as f64;
        acc.walls += 1;
        if (a - a_src).abs() > 0.011 + 1e-3 * a_src {
            ctx.violation("geometry:area:element-with-own-polygon", &format!("{}: element {} has {} m2, the polygon it names has {:.3} m2", fname, wname, a, a_src), json!({"part": "real", "file": fname, "wall": wname, "area": a, "source_polygon_area": a_src}));
        }
    }
    for (wname, sname, v) in walls {
        let Some(sp) = spaces.iter().find(|s| s.name == sname) else { continue };
        if sp.poly.len() < v || sp.poly.is_empty() {
            continue;
        }
        let Some(w) = m.walls.iter().find(|w| w.name == wname) else { continue };
        let Some(got) = world_corners(&w.geometry) else { continue };
        let spec = Spec { outline: 0, height: sp.height as f32, storeys: 1, offset: (sp.x as f32, sp.y as f32), space_az: sp.az as f32, global_dev: dev as f32, window: 0, shade: 0, poly_roof: false };
        let (a, b) = (sp.poly[v - 1], sp.poly[v % sp.poly.len()]);
        let exp = vec![projgen::space_to_world(&spec, a, sp.z), projgen::space_to_world(&spec, b, sp.z), projgen::space_to_world(&spec, b, sp.z + sp.height), projgen::space_to_world(&spec, a, sp.z + sp.height)];
        let d = set_distance(&exp, &got);
        acc.walls += 1;
        acc.maxd = acc.maxd.max(if sp.az == 0.0 { d } else { 0.0 });
        if d > tol(&exp) {
            let cls = match (sp.az != 0.0, sp.x != 0.0 || sp.y != 0.0) {
                (true, true) => "rotated+offset space",
                (true, false) => "rotated space",
                (false, true) => "offset space",
                _ => "plain space",
            };
            ctx.violation(&format!("geometry:position:space-vertex wall:{}", cls), &format!("{}: wall {} of space {} (x={}, y={}, azimuth={}, deviation {}): corners off by {:.3} m", fname, wname, sname, sp.x, sp.y, sp.az, dev, d), json!({"part": "real", "file": fname, "wall": wname, "expected": exp, "converted": got}));
        }
    }
}

pub fn run(ctx: &Ctx) -> i32 {
    let specs = projgen::all_specs(ctx.tier);
    let thetas: Vec<f64> = {
        let mut v = vec![15.0, 90.0, 123.4, 270.0, -30.0];
        if ctx.seed != 0 {
            v.push((ctx.seed % 3600) as f64 / 10.0); // labelled sampling: extra angle from VERIF_SEED
        }
        v
    };
    let accs = par_fold(specs.len() as u64, |i, acc: &mut Acc| {
        let s = &specs[i as usize];
        if let Some(m0) = check_spec(ctx, s, acc) {
            // rotation covariance on a sub-lattice (every 5th building, all angles)
            if i % 5 == 0 {
                for th in &thetas {
                    let mut s2 = s.clone();
                    s2.global_dev = s.global_dev + *th as f32;
                    acc.n += 1;
                    if let Ok(m1) = convert_spec(&s2) {
                        check_covariance(ctx, &m0, &m1, *th, &|| json!({"part": "rotation", "spec": format!("{:?}", s), "theta": th}));
                    }
                }
            }
        }
    });
    // shading devices of a window (overhang, left and right fin): each generated shade depends on its own attributes
    // only - the fins of a window with an overhang are where they are without it, and the other way round
    {
        let devs = [0.0f32, 37.5];
        for (si, dev) in devs.iter().enumerate() {
            let spec = Spec { outline: [0usize, 1][si], height: 2.5, storeys: 1, offset: (0.0, 0.0), space_az: 0.0, global_dev: *dev, window: 1, shade: 0, poly_roof: false };
            let base = projgen::ctehexml_text(&spec);
            let over = "    OVERHANG-A = 0.3\n    OVERHANG-B = 0.4\n    OVERHANG-W = 2.6\n    OVERHANG-D = 0.8\n    OVERHANG-ANGLE = 90\n";
            let fins = "    LEFT-FIN-A = 0.2\n    LEFT-FIN-B = 0.1\n    LEFT-FIN-H = 1.5\n    LEFT-FIN-D = 0.5\n    RIGHT-FIN-A = 0.25\n    RIGHT-FIN-B = 0.15\n    RIGHT-FIN-H = 1.4\n    RIGHT-FIN-D = 0.6\n";
            let with = |extra: &str| -> Option<Vec<(String, String)>> {
                let p = base.find("= WINDOW\n")? + "= WINDOW\n".len();
                let t = format!("{}{}{}", &base[..p], extra, &base[p..]);
                match corpus::convert_text(&t, false) {
                    Outcome::Ok(m) => Some(m.shades.iter().map(|s| (s.name.clone(), format!("{:?}", s.geometry))).collect()),
                    _ => None,
                }
            };
            ctx.eval(3);
            let (a, b, c) = (with(over), with(fins), with(&format!("{}{}", over, fins)));
            let case = json!({"part": "window shading devices", "spec": format!("{:?}", spec)});
            match (a, b, c) {
                (Some(a), Some(b), Some(c)) => {
                    let pick = |v: &Vec<(String, String)>, suffix: &str| v.iter().find(|(n, _)| n.ends_with(suffix)).map(|(_, g)| g.clone());
                    for (suffix, alone) in [("_overhang", &a), ("_left_fin", &b), ("_right_fin", &b)] {
                        let (x, y) = (pick(alone, suffix), pick(&c, suffix));
                        if x.is_none() || x != y {
                            ctx.violation(&format!("geometry:window-shading-device:{}-depends-on-the-other-devices", suffix.trim_start_matches('_')), &format!("the {} shade of a window is {:?} when defined alone and {:?} when the window also has the other devices", suffix.trim_start_matches('_'), x, y), case.clone());
                        }
                    }
                }
                _ => ctx.violation("convert:generated-building-rejected:window-shading-devices", "a generated building whose window has an overhang and/or fins does not convert", case),
            }
        }
    }
    // real projects: calibration of the reference + rotation covariance
    let mut files: Vec<(String, bool)> = corpus::project_dirs().iter().filter_map(|d| corpus::ctehexml_path(d)).map(|p| (p, false)).collect();
    files.extend(corpus::cte_files().into_iter().map(|p| (p, true)));
    if ctx.tier == Tier::Quick {
        files = files.into_iter().enumerate().filter(|(i, (p, _))| i % 6 == 0 || p.contains("14_BloqueH5P") || p.contains("cubo.ctehexml")).map(|(_, f)| f).collect();
    }
    let accs2 = par_fold(files.len() as u64, |i, acc: &mut Acc| {
        let (p, is_cte) = &files[i as usize];
        check_real(ctx, p, *is_cte, acc);
        // re-convert with an angle added to the global deviation (text edit of the BUILD-PARAMETERS AZIMUTH line)
        let text = if *is_cte { corpus::read_latin1(p) } else { corpus::read_utf8(p) };
        if let Some((m0, dev_line, dev)) = base_and_dev(&text, *is_cte) {
            for th in thetas.iter().take(ctx.tier.pick(2, 4)) {
                let Some(hdr) = text.find("= BUILD-PARAMETERS") else { continue };
                let Some(rel) = text[hdr..].find(&dev_line) else { continue };
                let t2 = format!("{}{}{}", &text[..hdr + rel], format!("AZIMUTH   = {:.6}", dev + th), &text[hdr + rel + dev_line.len()..]);
                acc.n += 1;
                if let Outcome::Ok(m1) = corpus::convert_text(&t2, *is_cte) {
                    check_covariance(ctx, &m0, &m1, *th, &|| json!({"part": "rotation-real", "file": p, "theta": th}));
                }
            }
        }
    });
    let (mut n, mut walls, mut maxd) = (0, 0, 0.0f64);
    for a in accs.iter().chain(accs2.iter()) {
        n += a.n;
        walls += a.walls;
        maxd = maxd.max(a.maxd);
        ctx.outcome_merge(&a.outcomes);
    }
    ctx.eval(n);
    ctx.nontriv(walls);
    ctx.note("geometry", json!({"generated_buildings": specs.len(), "real_files": files.len(), "walls_compared": walls, "max_distance_where_space_azimuth_is_0_m": maxd}));
    ctx.sample(json!({"part": "generated", "spec": format!("{:?}", specs[specs.len() / 2])}));
    ctx.finish(
        "model_checking",
        "generated buildings over the product outline{rectangle, L, triangle, convex pentagon, U, rectangle with a corner written twice} x storey height x storeys{1,2} x space offset{(0,0),(3,-2) and 1.2 m up} x space azimuth{0,90,30} x global deviation{0,90,180,290,37.5 (3 values in quick)} x window{none, setback 0, 0.2} x shade{none, rectangle vertical / facing down / facing up / sloped, vertices vertical/45/horizontal, a sloped cross with twelve corners} (shade corners compared in their order around the outline) (+ one polygon-defined 30-degree roof per combination), printed as BDL (every other building with an explicit plus sign on its positive placement numbers) into the cubo.ctehexml wrapper and converted by the real parser + converter: every wall/floor/ceiling corner pushed through to_global_coords_matrix must lie within 1 cm (+1e-4 |coord|) of the corner computed from the BDL conventions, outward normals, areas, window x/y/w/h/setback, shade corners; the overhang / fin shades of a window defined alone and together (each must not depend on the others); rotation covariance for every 5th building and every real project with theta in {15, 90, 123.4, 270, -30} (the turned deviation is written as it comes: above 360 or below 0) (+ one VERIF_SEED-derived angle, labelled sampling): positions turn clockwise by theta, azimuths shift by -theta, areas/volumes/K/n50 unchanged; SPACE-Vn walls of the real projects against the same reference, and every element of a real project that names a polygon of its own has the area of that polygon (calibration: max distance reported for spaces without rotation); non-trivial = walls compared",
        true,
        json!({}),
    )
}

fn base_and_dev(text: &str, is_cte: bool) -> Option<(Model, String, f64)> {
    // find the BUILD-PARAMETERS AZIMUTH line
    let mut in_bp = false;
    for l in text.lines() {
        let t = l.trim();
        if t.ends_with("= BUILD-PARAMETERS") {
            in_bp = true;
        } else if t == ".." {
            in_bp = false;
        } else if in_bp && t.starts_with("AZIMUTH") {
            let v: f64 = t.split('=').nth(1)?.trim().parse().ok()?;
            if let Outcome::Ok(m) = corpus::convert_text(text, is_cte) {
                return Some((m, t.to_string(), v));
            }
            return None;
        }
    }
    None
}
