//! C17 — schedules: calendar partition, weekday alignment, occupancy and load means (E1)

use crate::common::*;
use crate::gen::*;
use bemodel::*;
use hulc::ctehexml::CtehexmlData;
use serde_json::json;
use std::collections::HashSet;
use std::convert::TryFrom;

const MDAYS: [u32; 12] = [31, 28, 31, 30, 31, 30, 31, 31, 30, 31, 30, 31];

fn md_of(doy: u32) -> (u32, u32) {
    // 1-based day of year -> (month, day)
    let mut d = doy;
    for (i, n) in MDAYS.iter().enumerate() {
        if d <= *n {
            return (i as u32 + 1, d);
        }
        d -= n;
    }
    unreachable!()
}

/// weekly patterns over day ids d0..d6 (7 entries when expanded)
fn week_patterns() -> Vec<(&'static str, Vec<(usize, u32)>)> {
    vec![
        ("7-distinct", (0..7).map(|i| (i, 1)).collect()),
        ("5+2", vec![(0, 5), (1, 2)]),
        ("single-x7", vec![(2, 7)]),
        ("1+1+5", vec![(3, 1), (4, 1), (5, 5)]),
    ]
}

fn sched_db(periods: &[(usize, u32)]) -> (SchedulesDb, Uuid) {
    // periods: (week pattern index, count)
    let pats = week_patterns();
    let mut db = SchedulesDb::default();
    for i in 0..7 {
        db.day.push(ScheduleDay { id: uid(&format!("d{i}")), name: format!("d{i}"), values: vec![i as f32; 24], ..Default::default() });
    }
    for (k, (_, p)) in pats.iter().enumerate() {
        db.week.push(ScheduleWeek { id: uid(&format!("w{k}")), name: format!("w{k}"), values: p.iter().map(|(d, c)| (uid(&format!("d{d}")), *c)).collect(), ..Default::default() });
    }
    let y = Schedule { id: uid("y"), name: "y".into(), values: periods.iter().map(|(w, c)| (uid(&format!("w{w}")), *c)).collect(), ..Default::default() };
    let id = y.id;
    db.year.push(y);
    (db, id)
}

fn expected_days(periods: &[(usize, u32)]) -> Vec<Uuid> {
    let pats = week_patterns();
    let mut out = vec![];
    let mut n = 0usize;
    for (w, c) in periods {
        let week: Vec<usize> = pats[*w].1.iter().flat_map(|(d, k)| vec![*d; *k as usize]).collect();
        for _ in 0..*c {
            out.push(uid(&format!("d{}", week[n % 7])));
            n += 1;
        }
    }
    out
}

fn check_expansion(ctx: &Ctx, periods: &[(usize, u32)], what: &str) -> u64 {
    let (db, id) = sched_db(periods);
    let got = db.get_year_as_day_sch(id);
    let exp = expected_days(periods);
    if got != exp {
        let key = if got.len() != exp.len() { "year-expansion:length" } else { "year-expansion:weekday-alignment" };
        let first = got.iter().zip(exp.iter()).position(|(a, b)| a != b);
        ctx.violation(key, &format!("{}: {} days, expected {}; first difference at day {:?}", what, got.len(), exp.len(), first), json!({"part": "expansion", "periods(week pattern, days)": periods}));
    }
    // history on one object (and on its clone): expanded, then a weekly schedule edited in place, then expanded again
    if hash64(&got) % 16 == 0 {
        for on_clone in [false, true] {
            let (mut db2, id2) = sched_db(periods);
            let _ = db2.get_year_as_day_sch(id2);
            let _ = db2.year_values(id2);
            let mut q = if on_clone { db2.clone() } else { db2 };
            for w in q.week.iter_mut() {
                w.values = vec![(uid("d6"), 7)];
            }
            q.day[6].values = vec![0.5; 24];
            let again = q.get_year_as_day_sch(id2);
            let vals2 = q.year_values(id2);
            if again.iter().any(|d| *d != uid("d6")) || again.len() != exp.len() || vals2.iter().any(|v| *v != 0.5) {
                ctx.violation("year-expansion:stale-after-edit", &format!("{}: after a first expansion every weekly schedule was set to one daily schedule (value 0.5) in place{}; the second expansion still has {} other days and {} other hourly values", what, if on_clone { " on a clone" } else { "" }, again.iter().filter(|d| **d != uid("d6")).count(), vals2.iter().filter(|v| **v != 0.5).count()), json!({"part": "expansion", "history": ["expand", "edit weekly schedules in place", "expand"], "on_clone": on_clone, "periods": periods}));
            }
        }
    }
    // values: 24 per day
    let vals = db.year_values(id);
    if vals.len() != exp.len() * 24 {
        ctx.violation("year-expansion:hourly-length", &format!("{} hourly values for {} days", vals.len(), exp.len()), json!({"part": "expansion", "periods": periods}));
    }
    hash64(&got)
}

/// the single value of the one-value daily schedule: a stand-by fraction with three decimals
const SINGLE_DAY_VALUE: &str = "0.004";
/// written hourly values: one, two, three and four decimals in turn
fn day_value_text(h: usize, i: usize) -> String {
    let k = (h * 37 + i * 11) % 1000;
    match h % 4 {
        0 => format!("{:.1}", k as f32 / 1000.0),
        1 => format!("{:.2}", k as f32 / 1000.0),
        2 => format!("{:.3}", k as f32 / 1000.0),
        _ => format!("{:.4}", k as f32 / 1000.0 + 0.0004),
    }
}

fn bdl_schedule_doc(ends: &[u32], week_names: &[&str], days7: &[usize], day_single: bool) -> String {
    let mut s = String::new();
    for i in 0..3 {
        if day_single && i == 0 {
            s += &format!("\"D{i}\" = DAY-SCHEDULE-PD\n  TYPE  = FRACTION\n  VALUES  = ( {})\n  ..\n", SINGLE_DAY_VALUE);
        } else {
            let vals: Vec<String> = (0..24).map(|h| day_value_text(h, i)).collect();
            // (the last one is declared ON/OFF and still carries fractions: the written values are the values)
            s += &format!("\"D{i}\" = DAY-SCHEDULE-PD\n  TYPE  = {}\n  VALUES  = ( {})\n  ..\n", if i == 2 { "\"ON/OFF\"" } else { "FRACTION" }, vals.join(", "));
        }
    }
    let names: Vec<String> = days7.iter().map(|d| format!("\"D{d}\"")).collect();
    s += &format!("\"WA\" = WEEK-SCHEDULE-PD\n  TYPE  = FRACTION\n  DAY-SCHEDULES = ( {})\n  ..\n", names.join(",\n      "));
    s += "\"WB\" = WEEK-SCHEDULE-PD\n  TYPE  = FRACTION\n  DAY-SCHEDULES = ( \"D1\")\n  ..\n";
    let months: Vec<String> = ends.iter().map(|e| md_of(*e).0.to_string()).collect();
    let days: Vec<String> = ends.iter().map(|e| md_of(*e).1.to_string()).collect();
    let weeks: Vec<String> = week_names.iter().map(|w| format!("\"{}\"", w)).collect();
    s += &format!("\"Y\" = SCHEDULE-PD\n  TYPE  = FRACTION\n  MONTH = ( {})\n  DAY   = ( {})\n  WEEK-SCHEDULES = ( {})\n  ..\n", months.join(", "), days.join(", "), weeks.join(", "));
    s
}

fn convert_doc(doc: &str) -> Result<Model, String> {
    match catch(std::panic::AssertUnwindSafe(|| -> Result<Model, anyhow::Error> {
        let bdldata = hulc::bdl::Data::new(doc)?;
        let d = CtehexmlData { bdldata, ..Default::default() };
        Model::try_from(&d)
    })) {
        Ok(Ok(m)) => Ok(m),
        Ok(Err(e)) => Err(format!("error: {}", e)),
        Err(p) => Err(format!("panic: {}", p)),
    }
}

fn check_conversion(ctx: &Ctx, ends: &[u32], days7: &[usize], day_single: bool) -> u64 {
    // weeks by period: A,B,A - or, for every other list of end dates, A,A,B (two consecutive periods on one week)
    let wn = if ends.iter().sum::<u32>() % 2 == 0 { ["WA", "WA", "WB"] } else { ["WA", "WB", "WA"] };
    let week_names: Vec<&str> = (0..ends.len()).map(|i| wn[i % 3]).collect();
    let doc = bdl_schedule_doc(ends, &week_names, days7, day_single);
    let case = || json!({"part": "conversion", "end_days_of_year": ends, "week_days": days7, "bdl": doc});
    let m = match convert_doc(&doc) {
        Ok(m) => m,
        Err(e) => {
            ctx.violation(&format!("conversion:{}", e.split(':').next().unwrap_or("")), &format!("schedule document rejected: {}", e.chars().take(150).collect::<String>()), case());
            return 0;
        }
    };
    let name_of_day = |id: Uuid| m.schedules.day.iter().find(|d| d.id == id).map(|d| d.name.clone()).unwrap_or_default();
    // daily: 24 values
    for d in &m.schedules.day {
        if d.values.len() != 24 {
            ctx.violation("conversion:day-not-24", &format!("daily schedule {} has {} values", d.name, d.values.len()), case());
        }
    }
    if day_single {
        if let Some(d) = m.schedules.day.iter().find(|d| d.name == "D0") {
            let v0: f32 = SINGLE_DAY_VALUE.parse().unwrap();
            if d.values.iter().any(|v| *v != v0) {
                ctx.violation("conversion:day-single-value", "single-value daily schedule not expanded to 24 values equal to the written one", case());
            }
        }
    }
    for i in 0..3usize {
        if day_single && i == 0 {
            continue;
        }
        if let Some(d) = m.schedules.day.iter().find(|d| d.name == format!("D{i}")) {
            let exp: Vec<f32> = (0..24).map(|h| day_value_text(h, i).parse().unwrap()).collect();
            if d.values != exp {
                ctx.violation("conversion:day-values", &format!("daily schedule D{} carries {:?}, the file says {:?}", i, d.values, exp), case());
            }
        }
    }
    // weekly: runs covering 7 days reproducing the names
    for w in &m.schedules.week {
        let exp: Vec<String> = if w.name == "WA" { days7.iter().map(|d| format!("D{d}")).collect() } else { vec!["D1".to_string(); 7] };
        let got: Vec<String> = w.to_day_sch().into_iter().map(name_of_day).collect();
        if got != exp {
            ctx.violation("conversion:week-runs", &format!("weekly schedule {} expands to {:?}, expected {:?}", w.name, got, exp), case());
        }
    }
    // yearly: periods partition the year at the end dates
    let y = match m.schedules.year.iter().find(|y| y.name == "Y") {
        Some(y) => y,
        None => {
            ctx.violation("conversion:year-missing", "yearly schedule not converted", case());
            return 0;
        }
    };
    let mut exp_counts = vec![];
    let mut prev = 0;
    for e in ends {
        exp_counts.push(e - prev);
        prev = *e;
    }
    let got_counts: Vec<u32> = y.values.iter().map(|v| v.1).collect();
    let got_weeks: Vec<String> = y.values.iter().map(|v| m.schedules.week.iter().find(|w| w.id == v.0).map(|w| w.name.clone()).unwrap_or_default()).collect();
    // as a partition of the year: consecutive periods on one week are one stretch (a converter may write them either way)
    let merged = |names: &[String], counts: &[u32]| -> Vec<(String, u32)> {
        let mut out: Vec<(String, u32)> = vec![];
        for (n, c) in names.iter().zip(counts.iter()) {
            match out.last_mut() {
                Some(l) if l.0 == *n => l.1 += *c,
                _ => out.push((n.clone(), *c)),
            }
        }
        out
    };
    let exp_names: Vec<String> = week_names.iter().map(|s| s.to_string()).collect();
    let (gm, em) = (merged(&got_weeks, &got_counts), merged(&exp_names, &exp_counts));
    if gm.iter().map(|x| x.1).collect::<Vec<_>>() != em.iter().map(|x| x.1).collect::<Vec<_>>() {
        ctx.violation("conversion:year-period-lengths", &format!("period lengths {:?} on weeks {:?}, expected {:?} on {:?} for end dates {:?}", got_counts, got_weeks, exp_counts, week_names, ends.iter().map(|e| md_of(*e)).collect::<Vec<_>>()), case());
    }
    if gm.iter().map(|x| x.0.clone()).collect::<Vec<_>>() != em.iter().map(|x| x.0.clone()).collect::<Vec<_>>() {
        ctx.violation("conversion:year-weeks", &format!("weeks {:?}, expected {:?}", got_weeks, week_names), case());
    }
    // expanded: day n takes weekday slot n mod 7 of the period's week
    let days = m.schedules.get_year_as_day_sch(y.id);
    if *ends.last().unwrap() == 365 && days.len() != 365 {
        ctx.violation("conversion:year-not-365", &format!("expanded year has {} days", days.len()), case());
    }
    let mut n = 0usize;
    let mut ok = true;
    for (p, c) in exp_counts.iter().enumerate() {
        for _ in 0..*c {
            let exp = if week_names[p] == "WA" { format!("D{}", days7[n % 7]) } else { "D1".to_string() };
            if n >= days.len() || name_of_day(days[n]) != exp {
                ok = false;
            }
            n += 1;
        }
    }
    if !ok && gm == em {
        ctx.violation("conversion:weekday-alignment", "expanded converted schedule does not take the weekday slot of its period's week", case());
    }
    hash64(&got_counts)
}

// ---------------------------------------------------------------- (c) occupancy

const PROFILES: [&str; 6] = ["zero", "one", "morning", "evening", "1e-6", "negative"];

fn profile(i: usize) -> Vec<f32> {
    (0..24)
        .map(|h| match i {
            0 => 0.0,
            1 => 1.0,
            2 => if (7..13).contains(&h) { 0.8 } else { 0.0 },
            3 => if (18..23).contains(&h) { 0.6 } else { 0.0 },
            4 => if h == 3 { 1e-6 } else { 0.0 },
            _ => if h == 12 { -0.5 } else { 0.0 },
        })
        .collect()
}

/// spaces: each (kind, inside, mult, schedule index, profile weekday, profile weekend)
fn occ_model(spaces: &[(usize, usize, usize, usize)], sched_profiles: &[(usize, usize)]) -> Model {
    let mut m = model_with_meta(meta(zone("D3")));
    let wc = std_cons(&mut m);
    let kinds = [SpaceType::CONDITIONED, SpaceType::UNCONDITIONED, SpaceType::UNINHABITED];
    for (k, (pw, pe)) in sched_profiles.iter().enumerate() {
        m.schedules.day.push(ScheduleDay { id: uid(&format!("dw{k}")), name: format!("dw{k}"), values: profile(*pw), ..Default::default() });
        m.schedules.day.push(ScheduleDay { id: uid(&format!("de{k}")), name: format!("de{k}"), values: profile(*pe), ..Default::default() });
        m.schedules.week.push(ScheduleWeek { id: uid(&format!("wk{k}")), name: format!("wk{k}"), values: vec![(uid(&format!("dw{k}")), 5), (uid(&format!("de{k}")), 2)], ..Default::default() });
        m.schedules.week.push(ScheduleWeek { id: uid(&format!("wh{k}")), name: format!("wh{k}"), values: vec![(uid(&format!("de{k}")), 7)], ..Default::default() });
        // summer holiday period in the middle: three periods partitioning 365
        m.schedules.year.push(Schedule { id: uid(&format!("y{k}")), name: format!("y{k}"), values: vec![(uid(&format!("wk{k}")), 181), (uid(&format!("wh{k}")), 31), (uid(&format!("wk{k}")), 153)], ..Default::default() });
        m.loads.push(SpaceLoads { id: uid(&format!("l{k}")), name: format!("l{k}"), area_per_person: 10.0, people_schedule: if k >= 1 && k + 1 == sched_profiles.len() { None } else { Some(uid(&format!("y{k}"))) }, people_sensible: 6.0 + k as f32, people_latent: 3.0, equipment: 4.4, equipment_schedule: Some(uid(&format!("y{}", (k + 1) % sched_profiles.len()))), lighting: 2.5 * (k + 1) as f32, lighting_schedule: Some(uid(&format!("y{k}"))), ..Default::default() });
    }
    for (i, (kind, inside, mult, sch)) in spaces.iter().enumerate() {
        let mut s = space(&format!("s{i}"), kinds[*kind], *inside == 0, 3.0);
        s.multiplier = [1.0, 2.0][*mult];
        s.loads = Some(uid(&format!("l{sch}")));
        m.walls.push(wall(&format!("s{i}_F"), BoundaryType::GROUND, wc, s.id, None, geom(180.0, 0.0, None, rect(3.0 + i as f32, 4.0))));
        m.spaces.push(s);
    }
    m
}

fn year_hours(m: &Model, year: Uuid) -> Vec<f32> {
    // independent expansion: day n -> period -> week slot n mod 7
    let y = m.schedules.year.iter().find(|y| y.id == year).unwrap();
    let mut out = vec![];
    let mut n = 0usize;
    for (w, c) in &y.values {
        let wk = m.schedules.week.iter().find(|x| x.id == *w).unwrap();
        let days: Vec<Uuid> = wk.values.iter().flat_map(|(d, k)| vec![*d; *k as usize]).collect();
        for _ in 0..*c {
            let d = m.schedules.day.iter().find(|x| x.id == days[n % 7]).unwrap();
            out.extend(d.values.iter().copied());
            n += 1;
        }
    }
    out
}

fn check_occupancy(ctx: &Ctx, spaces: &[(usize, usize, usize, usize)], profs: &[(usize, usize)]) -> u64 {
    let m = occ_model(spaces, profs);
    let case = || json!({"part": "occupancy", "spaces(kind,outside,mult_idx,schedule)": spaces, "profiles(weekday,weekend)": profs.iter().map(|p| (PROFILES[p.0], PROFILES[p.1])).collect::<Vec<_>>()});
    let ind = match catch(std::panic::AssertUnwindSafe(|| m.energy_indicators())) {
        Ok(i) => i,
        Err(p) => {
            ctx.violation(&format!("panic:{}", panic_key(&p)), &format!("indicators panicked: {}", p), case());
            return 0;
        }
    };
    // reference
    let occ: Vec<&Space> = m.spaces.iter().filter(|s| s.kind != SpaceType::UNINHABITED && s.inside_tenv && s.loads.is_some()).collect();
    let mut used = vec![false; 8760];
    let mut any = false;
    for s in &occ {
        let l = m.loads.iter().find(|l| Some(l.id) == s.loads).unwrap();
        if let Some(ps) = l.people_schedule {
            any = true;
            for (h, v) in year_hours(&m, ps).iter().enumerate() {
                if v.abs() > 100.0 * f32::EPSILON {
                    used[h] = true;
                }
            }
        }
    }
    let exp_hours = if any { used.iter().filter(|u| **u).count() as u32 } else { 0 };
    let g = &ind.props.global;
    if g.occ_spaces_hours_in_use != exp_hours {
        ctx.violation("occupancy:hours-in-use", &format!("{} occupied hours, expected {}", g.occ_spaces_hours_in_use, exp_hours), case());
    }
    let (mut tl, mut ta) = (0.0f64, 0.0f64);
    for s in &occ {
        let l = m.loads.iter().find(|l| Some(l.id) == s.loads).unwrap();
        let avg = |id: Option<Uuid>| -> f64 {
            id.map_or(0.0, |y| {
                let h = year_hours(&m, y);
                h.iter().map(|v| *v as f64).sum::<f64>() / h.len() as f64
            })
        };
        let la = avg(l.people_schedule) * l.people_sensible as f64 + avg(l.lighting_schedule) * l.lighting as f64 + avg(l.equipment_schedule) * l.equipment as f64;
        let area = crate::ind::space_area(&m, s) * s.multiplier as f64;
        tl += la * area;
        ta += area;
    }
    let exp_load = if ta > 0.0 { tl / ta } else { 0.0 };
    if !close(g.occ_spaces_average_load as f64, exp_load, 1e-4, 1e-4) {
        ctx.violation("occupancy:average-load", &format!("mean internal load {} expected {:.5}", g.occ_spaces_average_load, exp_load), case());
    }
    hash64(&(g.occ_spaces_hours_in_use, g.occ_spaces_average_load.to_bits()))
}

pub fn run(ctx: &Ctx) -> i32 {
    let npat = week_patterns().len();
    #[derive(Default)]
    struct Acc {
        n: u64,
        outcomes: HashSet<u64>,
    }
    let mut accs: Vec<Acc> = vec![];
    // (a) 1-, 2-, 3-period partitions of 365
    let mut a0 = Acc::default();
    for w in 0..npat {
        a0.outcomes.insert(check_expansion(ctx, &[(w, 365)], "1 period"));
        a0.n += 1;
    }
    accs.push(a0);
    accs.extend(par_fold(364 * (npat * npat) as u64, |i, acc: &mut Acc| {
        let a = 1 + (i % 364) as u32;
        let p = (i / 364) as usize;
        acc.outcomes.insert(check_expansion(ctx, &[(p % npat, a), (p / npat, 365 - a)], "2 periods"));
        acc.n += 1;
    }));
    let triples: Vec<(u32, u32)> = (1..364u32).flat_map(|a| ((a + 1)..365).map(move |b| (a, b))).collect();
    let wcombos = ctx.tier.pick(4usize, npat * npat * npat);
    accs.extend(par_fold((triples.len() * wcombos) as u64, |i, acc: &mut Acc| {
        let (a, b) = triples[(i as usize) % triples.len()];
        let p = (i as usize) / triples.len();
        let ws = if wcombos == 4 { [[0, 1, 2], [1, 0, 3], [3, 3, 1], [2, 1, 0]][p] } else { [p % npat, (p / npat) % npat, p / (npat * npat)] };
        acc.outcomes.insert(check_expansion(ctx, &[(ws[0], a), (ws[1], b - a), (ws[2], 365 - b)], "3 periods"));
        acc.n += 1;
    }));
    // 12 calendar months and all 2^11 adjacent merges
    accs.extend(par_fold(2048, |mask, acc: &mut Acc| {
        let mut periods: Vec<(usize, u32)> = vec![];
        let mut cur = 0u32;
        for mth in 0..12 {
            cur += MDAYS[mth];
            if mth == 11 || mask & (1 << mth) == 0 {
                periods.push((periods.len() % npat, cur));
                cur = 0;
            }
        }
        acc.outcomes.insert(check_expansion(ctx, &periods, "month merges"));
        acc.n += 1;
    }));
    ctx.sample(json!({"part": "expansion", "periods(week pattern, days)": [[0, 100], [1, 200], [2, 65]]}));
    // (b) conversion
    let mut ab = Acc::default();
    for e in 1..=365u32 {
        // a single end date (only 365 gives a full year)
        ab.outcomes.insert(check_conversion(ctx, &[e], &[0, 0, 0, 0, 0, 1, 2], false));
        ab.n += 1;
    }
    accs.push(ab);
    accs.extend(par_fold(364, |i, acc: &mut Acc| {
        acc.outcomes.insert(check_conversion(ctx, &[1 + i as u32, 365], &[0, 1, 2, 0, 1, 2, 0], i % 2 == 0));
        acc.n += 1;
    }));
    let tstride = ctx.tier.pick(11, 1);
    accs.extend(par_fold((triples.len() / tstride) as u64, |i, acc: &mut Acc| {
        let (a, b) = triples[i as usize * tstride];
        acc.outcomes.insert(check_conversion(ctx, &[a, b, 365], &[0, 0, 0, 0, 0, 1, 2], false));
        acc.n += 1;
    }));
    accs.extend(par_fold(2187, |i, acc: &mut Acc| {
        let mut d7 = vec![];
        let mut k = i;
        for _ in 0..7 {
            d7.push((k % 3) as usize);
            k /= 3;
        }
        acc.outcomes.insert(check_conversion(ctx, &[150, 365], &d7, i % 3 == 0));
        acc.n += 1;
    }));
    ctx.sample(json!({"part": "conversion", "end_days_of_year": [59, 243, 365], "week_days": [0, 0, 0, 0, 0, 1, 2]}));
    ctx.note("conversion", json!({"three_date_lists_stride": tstride, "three_date_lists_total": triples.len()}));
    // (c) occupancy: 1..3 spaces
    let space_opts: Vec<(usize, usize, usize)> = (0..3).flat_map(|k| (0..2).flat_map(move |i| (0..2).map(move |m| (k, i, m)))).collect(); // 12
    let prof_pairs: Vec<(usize, usize)> = vec![(0, 0), (1, 1), (2, 0), (3, 2), (4, 0), (5, 0), (2, 3)];
    // 1 space
    let mut ac = Acc::default();
    for so in &space_opts {
        for p in &prof_pairs {
            ac.outcomes.insert(check_occupancy(ctx, &[(so.0, so.1, so.2, 0)], &[*p]));
            ac.n += 1;
        }
    }
    accs.push(ac);
    // 2 spaces: sharing partitions {same schedule, different}
    let n2 = space_opts.len() * space_opts.len() * 2 * prof_pairs.len() * prof_pairs.len();
    accs.extend(par_fold(n2 as u64, |i, acc: &mut Acc| {
        let mut k = i as usize;
        let a = space_opts[k % 12];
        k /= 12;
        let b = space_opts[k % 12];
        k /= 12;
        let share = k % 2;
        k /= 2;
        let p0 = prof_pairs[k % prof_pairs.len()];
        k /= prof_pairs.len();
        let p1 = prof_pairs[k % prof_pairs.len()];
        acc.outcomes.insert(check_occupancy(ctx, &[(a.0, a.1, a.2, 0), (b.0, b.1, b.2, if share == 0 { 0 } else { 1 })], &[p0, p1]));
        acc.n += 1;
    }));
    // 3 spaces: all 5 set partitions of schedule sharing, core space options
    let parts3: [[usize; 3]; 5] = [[0, 0, 0], [0, 0, 1], [0, 1, 0], [0, 1, 1], [0, 1, 2]];
    let core: Vec<(usize, usize, usize)> = vec![(0, 0, 0), (0, 0, 1), (1, 0, 0), (2, 0, 0), (0, 1, 0)];
    let pp3: Vec<(usize, usize)> = vec![(2, 0), (3, 2), (1, 1), (4, 0)];
    let n3 = core.len().pow(3) * 5 * pp3.len().pow(ctx.tier.pick(2, 3));
    accs.extend(par_fold(n3 as u64, |i, acc: &mut Acc| {
        let mut k = i as usize;
        let mut sp = vec![];
        for _ in 0..3 {
            sp.push(core[k % core.len()]);
            k /= core.len();
        }
        let part = parts3[k % 5];
        k /= 5;
        let p0 = pp3[k % pp3.len()];
        k /= pp3.len();
        let p1 = pp3[k % pp3.len()];
        k /= pp3.len();
        let p2 = pp3[k % pp3.len()];
        let spaces: Vec<_> = sp.iter().zip(part.iter()).map(|(s, sch)| (s.0, s.1, s.2, *sch)).collect();
        acc.outcomes.insert(check_occupancy(ctx, &spaces, &[p0, p1, p2]));
        acc.n += 1;
    }));
    // 4..6 spaces: star / chain sharing
    let mut a6 = Acc::default();
    for n in 4..=6usize {
        for mode in 0..2 {
            for shift in 0..pp3.len() {
                let spaces: Vec<_> = (0..n).map(|i| (core[i % core.len()].0, core[i % core.len()].1, core[(i + 1) % core.len()].2, if mode == 0 { 0 } else { i % 3 })).collect();
                let profs: Vec<_> = (0..3).map(|k| pp3[(k + shift) % pp3.len()]).collect();
                a6.outcomes.insert(check_occupancy(ctx, &spaces, &profs));
                a6.n += 1;
            }
        }
    }
    accs.push(a6);
    // shipped models: expansion of every yearly schedule has as many days as its periods add up to
    let mut ar = Acc::default();
    for (name, m) in shipped_models() {
        for y in &m.schedules.year {
            ar.n += 1;
            let exp: u32 = y.values.iter().map(|v| v.1).sum();
            let got = m.schedules.get_year_as_day_sch(y.id).len() as u32;
            if got != exp {
                ctx.violation("year-expansion:length", &format!("{}: schedule {} expands to {} days, periods add up to {}", name, y.name, got, exp), json!({"file": name, "schedule": y.name}));
            }
        }
    }
    accs.push(ar);
    ctx.sample(json!({"part": "occupancy", "spaces(kind,outside,mult_idx,schedule)": [[0, 0, 0, 0], [1, 0, 1, 1]], "profiles": [["morning", "zero"], ["evening", "morning"]]}));
    let mut tot = 0;
    for a in &accs {
        tot += a.n;
        ctx.outcome_merge(&a.outcomes);
    }
    ctx.eval(tot);
    ctx.nontriv(tot);
    ctx.finish(
        "model_checking",
        "(a) SchedulesDb::get_year_as_day_sch on all 1-, 2- and 3-period partitions of 365 days (1 + 364 + 66066) x weekly patterns {7 distinct days, 5+2, one day x7, 1+1+5} per period (all 4^k combinations; 4 fixed combinations for 3 periods in quick), the 12 calendar months and all 2^11 merges of adjacent months: day n takes slot n mod 7 of its period's week, and for every 16th case the history expand -> weekly schedules edited in place (also on a clone) -> expand; (b) BDL SCHEDULE-PD / WEEK-SCHEDULE-PD / DAY-SCHEDULE-PD documents through Data::new + Model::try_from: every end date 1..365, every pair (d,31 Dec), every triple (a,b,31 Dec) (every 11th in quick), weeks A,B,A or A,A,B by period (compared as a partition: consecutive periods on one week count as one stretch), all 3^7 weekly name lists, daily lists of 24 values (written with one to four decimals; one of the three declared ON/OFF) and of 1 value (0.004): period lengths from a calendar table, runs cover 7 days, 24 values equal to the written ones, weekday alignment; (c) occupancy on 1..3 spaces x kind x inside x multiplier x all set partitions of schedule sharing x daily profiles {zero, one, morning, evening, 1e-6, negative} (4..6 spaces: star/chain): (the last of two or more loads definitions has lighting and equipment but no occupancy schedule): occupied hours = count of hours with any non-zero occupancy, mean load = area-weighted mean of schedule-averaged loads; all cases distinct by construction",
        true,
        json!({}),
    )
}
