//! E2 — isolation supervisor: worker processes with per-case watchdog (wall time, address space),
//! panic-site capture, stdout-silence monitor. One JSON line per case over a private pipe.

use crate::common::*;
use serde_json::{json, Value};
use std::io::{BufRead, BufReader, Write};
use std::process::{Child, Command, Stdio};
use std::sync::atomic::{AtomicU64, Ordering};
use std::sync::mpsc;
use std::sync::Mutex;
use std::time::Duration;

extern "C" {
    fn dup(fd: i32) -> i32;
    fn dup2(a: i32, b: i32) -> i32;
    fn setrlimit(resource: i32, rlim: *const [u64; 2]) -> i32;
}
const RLIMIT_AS: i32 = 9;

/// Worker side: run `handler(idx)` for every index read from stdin; fd 1 is redirected to a scratch
/// file (any byte written there by the subject is reported as `stdout_bytes`).
pub fn worker_main(space: &str, handler: &dyn Fn(&str, u64) -> Value) -> i32 {
    use std::os::unix::io::{AsRawFd, FromRawFd};
    // address-space cap per worker: 16 workers run side by side, so the spaces whose subject can loop while allocating
    // (BVH construction, indicators) get 1.5 GiB each, the file converters 4 GiB
    let default_mb: u64 = if space.starts_with("c13") || space.starts_with("c14") { 1536 } else { 4096 };
    let mem_mb: u64 = std::env::var("VERIF_WORKER_MEM_GB").ok().and_then(|v| v.parse::<u64>().ok()).map(|g| g * 1024).unwrap_or(default_mb);
    unsafe {
        let lim = [mem_mb << 20, mem_mb << 20];
        setrlimit(RLIMIT_AS, &lim);
    }
    let proto_fd = unsafe { dup(1) };
    let scratch_path = format!("{}/.cache/worker-stdout-{}.tmp", verif_dir(), std::process::id());
    let scratch = std::fs::OpenOptions::new().create(true).write(true).truncate(true).open(&scratch_path).expect("scratch");
    unsafe {
        dup2(scratch.as_raw_fd(), 1);
    }
    let mut proto = unsafe { std::fs::File::from_raw_fd(proto_fd) };
    let stdin = std::io::stdin();
    let mut code = 0;
    for line in stdin.lock().lines() {
        let line = match line {
            Ok(l) => l,
            Err(_) => break,
        };
        let idx: u64 = match line.trim().parse() {
            Ok(i) => i,
            Err(_) => continue,
        };
        let before = std::fs::metadata(&scratch_path).map(|m| m.len()).unwrap_or(0);
        let r = catch(std::panic::AssertUnwindSafe(|| handler(space, idx)));
        let _ = std::io::stdout().flush();
        let after = std::fs::metadata(&scratch_path).map(|m| m.len()).unwrap_or(0);
        let mut exit_after = false;
        let mut v = match r {
            Ok(v) => v,
            Err(p) => {
                exit_after = true;
                json!({"verdict": "harness-panic", "panic": p})
            }
        };
        if v.get("exit_after").and_then(|x| x.as_bool()).unwrap_or(false) {
            exit_after = true;
        }
        v["idx"] = json!(idx);
        v["stdout_bytes"] = json!(after - before);
        if after > before {
            // keep a short excerpt
            if let Ok(txt) = std::fs::read(&scratch_path) {
                let s = &txt[before as usize..(after as usize).min(before as usize + 120)];
                v["stdout_excerpt"] = json!(String::from_utf8_lossy(s));
            }
        }
        let _ = writeln!(proto, "{}", v);
        let _ = proto.flush();
        if exit_after {
            code = 0;
            break;
        }
    }
    let _ = std::fs::remove_file(&scratch_path);
    code
}

struct W {
    child: Child,
    tx: std::process::ChildStdin,
    rx: mpsc::Receiver<Option<String>>,
}

fn spawn_worker(space: &str) -> W {
    let exe = std::env::current_exe().unwrap();
    let mut child = Command::new(exe)
        .arg("worker")
        .arg(space)
        .stdin(Stdio::piped())
        .stdout(Stdio::piped())
        .stderr(Stdio::null())
        .spawn()
        .expect("spawn worker");
    let tx = child.stdin.take().unwrap();
    let out = child.stdout.take().unwrap();
    let (s, rx) = mpsc::channel();
    std::thread::spawn(move || {
        let r = BufReader::new(out);
        for l in r.lines() {
            match l {
                Ok(l) => {
                    if s.send(Some(l)).is_err() {
                        return;
                    }
                }
                Err(_) => break,
            }
        }
        let _ = s.send(None);
    });
    W { child, tx, rx }
}

/// Supervisor: feeds indices 0..n (through `map`, so a slice can be sparse) to `nw` workers.
/// `on_result(idx, value)`: value.verdict is what the worker said, or timeout / abort / oom set here.
pub fn supervise(space: &str, indices: &[u64], timeout: Duration, on_result: &(dyn Fn(u64, Value) -> bool + Sync)) {
    let stop = std::sync::atomic::AtomicBool::new(false);
    let nw = nthreads().min(indices.len().max(1));
    let next = AtomicU64::new(0);
    let restarts = AtomicU64::new(0);
    let guard = Mutex::new(());
    let _ = &guard;
    std::thread::scope(|s| {
        for _ in 0..nw {
            s.spawn(|| {
                let mut w: Option<W> = None;
                loop {
                    let k = next.fetch_add(1, Ordering::Relaxed) as usize;
                    if k >= indices.len() || stop.load(Ordering::Relaxed) {
                        break;
                    }
                    let idx = indices[k];
                    if w.is_none() {
                        w = Some(spawn_worker(space));
                    }
                    let ww = w.as_mut().unwrap();
                    if writeln!(ww.tx, "{}", idx).is_err() || ww.tx.flush().is_err() {
                        // worker gone before the case: respawn once and retry
                        let _ = ww.child.kill();
                        let _ = ww.child.wait();
                        w = Some(spawn_worker(space));
                        let ww = w.as_mut().unwrap();
                        let _ = writeln!(ww.tx, "{}", idx);
                        let _ = ww.tx.flush();
                    }
                    let ww = w.as_mut().unwrap();
                    match ww.rx.recv_timeout(timeout) {
                        Ok(Some(line)) => {
                            let v: Value = serde_json::from_str(&line).unwrap_or(json!({"verdict": "garbled", "line": line}));
                            let exit_after = v.get("exit_after").and_then(|x| x.as_bool()).unwrap_or(false) || v["verdict"] == "harness-panic";
                            if !on_result(idx, v) { stop.store(true, Ordering::Relaxed); }
                            if exit_after {
                                let _ = ww.child.wait();
                                w = None;
                            }
                        }
                        Ok(None) | Err(mpsc::RecvTimeoutError::Disconnected) => {
                            // died during the case
                            let st = ww.child.wait().ok();
                            let sig = st.and_then(|s| {
                                use std::os::unix::process::ExitStatusExt;
                                s.signal()
                            });
                            let verdict = match sig {
                                Some(9) => "oom-or-killed",
                                Some(6) => "abort",
                                Some(11) => "segv",
                                _ => "died",
                            };
                            if !on_result(idx, json!({"verdict": verdict, "signal": sig, "status": format!("{:?}", st)})) { stop.store(true, Ordering::Relaxed); }
                            restarts.fetch_add(1, Ordering::Relaxed);
                            w = None;
                        }
                        Err(mpsc::RecvTimeoutError::Timeout) => {
                            let _ = ww.child.kill();
                            let _ = ww.child.wait();
                            if !on_result(idx, json!({"verdict": "timeout", "timeout_s": timeout.as_secs_f64()})) { stop.store(true, Ordering::Relaxed); }
                            restarts.fetch_add(1, Ordering::Relaxed);
                            w = None;
                        }
                    }
                }
                if let Some(mut ww) = w {
                    drop(ww.tx);
                    let _ = ww.child.wait();
                }
            });
        }
    });
}
