//! The shipped corpus: 12 HULC project directories (.ctehexml + KyG + tbl) and 56 legacy LIDER .cte files

use crate::common::repo_dir;
use anyhow::Error;
use bemodel::Model;
use hulc::bdl::{Data, DB};
use hulc::ctehexml::CtehexmlData;
use std::convert::TryFrom;
use std::sync::OnceLock;

pub fn tests_dir() -> String {
    format!("{}/hulc_tests/tests", repo_dir())
}

pub fn catalog() -> &'static DB {
    static CAT: OnceLock<DB> = OnceLock::new();
    CAT.get_or_init(|| hulc::ctehexml::load_lider_catalog().expect("LIDER catalog"))
}

pub fn project_dirs() -> Vec<String> {
    let mut v: Vec<String> = std::fs::read_dir(tests_dir())
        .unwrap()
        .filter_map(|e| e.ok())
        .filter(|e| e.path().is_dir() && e.file_name() != "liderdata")
        .map(|e| e.path().to_string_lossy().to_string())
        .collect();
    v.sort();
    v
}

pub fn ctehexml_path(dir: &str) -> Option<String> {
    let mut v: Vec<String> = std::fs::read_dir(dir)
        .ok()?
        .filter_map(|e| e.ok())
        .map(|e| e.path().to_string_lossy().to_string())
        .filter(|p| p.ends_with(".ctehexml"))
        .collect();
    v.sort();
    v.into_iter().next()
}

pub fn cte_files() -> Vec<String> {
    let mut v: Vec<String> = std::fs::read_dir(format!("{}/liderdata", tests_dir()))
        .unwrap()
        .filter_map(|e| e.ok())
        .map(|e| e.path().to_string_lossy().to_string())
        .filter(|p| p.to_lowercase().ends_with(".cte"))
        .collect();
    v.sort();
    v
}

pub fn read_utf8(path: &str) -> String {
    std::fs::read_to_string(path).unwrap_or_else(|e| panic!("read {}: {}", path, e))
}

/// latin-1 decoding (what hulc::utils::file::read_latin1_file does)
pub fn read_latin1(path: &str) -> String {
    let b = std::fs::read(path).unwrap_or_else(|e| panic!("read {}: {}", path, e));
    b.iter().map(|&c| c as char).collect()
}

fn with_catalog(mut d: CtehexmlData) -> CtehexmlData {
    let cat = catalog();
    let db = &mut d.bdldata.db;
    db.materials.extend(cat.materials.clone());
    db.wallcons.extend(cat.wallcons.clone());
    db.wincons.extend(cat.wincons.clone());
    db.glasses.extend(cat.glasses.clone());
    db.frames.extend(cat.frames.clone());
    d
}

/// the library's own entry point (the catalogue is decompressed and merged by the library on every call, so state
/// that the library might keep between calls is exercised too)
pub fn parse_ctehexml_text(text: &str) -> Result<CtehexmlData, Error> {
    hulc::ctehexml::parse_with_catalog(text)
}

/// legacy LIDER file: BDL text + catalog + default general data (zone D3)
pub fn parse_cte_text(text: &str) -> Result<CtehexmlData, Error> {
    let bdldata = Data::new(text)?;
    Ok(with_catalog(CtehexmlData { bdldata, ..Default::default() }))
}

pub fn convert(d: &CtehexmlData) -> Result<Model, Error> {
    Model::try_from(d)
}

pub enum Outcome {
    Ok(Model),
    Err(String),
    Panic(String),
}

pub fn convert_text(text: &str, is_cte: bool) -> Outcome {
    let r = crate::common::catch(std::panic::AssertUnwindSafe(|| {
        let d = if is_cte { parse_cte_text(text) } else { parse_ctehexml_text(text) }?;
        convert(&d)
    }));
    match r {
        Ok(Ok(m)) => Outcome::Ok(m),
        Ok(Err(e)) => Outcome::Err(format!("{}", e).lines().next().unwrap_or("").chars().take(200).collect()),
        Err(p) => Outcome::Panic(p),
    }
}

/// all convertible corpus models (name, model)
pub fn converted_corpus(include_cte: bool) -> Vec<(String, Model)> {
    let mut v = vec![];
    for d in project_dirs() {
        if let Some(p) = ctehexml_path(&d) {
            if let Outcome::Ok(m) = convert_text(&read_utf8(&p), false) {
                v.push((p.rsplit('/').next().unwrap().to_string(), m));
            }
        }
    }
    if include_cte {
        for p in cte_files() {
            if let Outcome::Ok(m) = convert_text(&read_latin1(&p), true) {
                v.push((p.rsplit('/').next().unwrap().to_string(), m));
            }
        }
    }
    v
}
