//! Reference U-values of opaque elements (EN ISO 6946 / 13370 / 13789) in f64, with the interval rule of
//! DESIGN §1.6: every intermediately-rounded quantity of the implementation is moved by +- its quantum.

use crate::ind::{poly_area, tilt_class, TiltC};
use bemodel::*;

const RSI_UP: f64 = 0.10;
const RSI_H: f64 = 0.13;
const RSI_DOWN: f64 = 0.17;
const RSE: f64 = 0.04;
const LAMBDA_GND: f64 = 2.0;
const LAMBDA_INS: f64 = 0.035;
const PI: f64 = std::f64::consts::PI;

#[derive(Debug, Clone, Copy)]
pub struct Iv {
    pub lo: f64,
    pub hi: f64,
    pub nominal: f64,
}

impl Iv {
    fn point(x: f64) -> Iv {
        Iv { lo: x, hi: x, nominal: x }
    }
    fn widen(self, q: f64) -> Iv {
        Iv { lo: self.lo - q, hi: self.hi + q, nominal: self.nominal }
    }
    pub fn contains(&self, x: f64) -> bool {
        x >= self.lo - 1e-5 * self.lo.abs() - 1e-6 && x <= self.hi + 1e-5 * self.hi.abs() + 1e-6
    }
    fn from_samples(nominal: f64, xs: &[f64]) -> Iv {
        let lo = xs.iter().cloned().fold(f64::INFINITY, f64::min);
        let hi = xs.iter().cloned().fold(f64::NEG_INFINITY, f64::max);
        Iv { lo: lo.min(nominal), hi: hi.max(nominal), nominal }
    }
}

pub fn resistance(m: &Model, cons: Uuid) -> Option<Option<f64>> {
    // outer None: construction missing; inner None: material missing / conductivity <= 0
    let c = m.cons.wallcons.iter().find(|c| c.id == cons)?;
    let mut r = 0.0;
    for l in &c.layers {
        match m.cons.materials.iter().find(|x| x.id == l.material) {
            None => return Some(None),
            Some(mat) => match mat.properties {
                MatProps::Detailed { conductivity, .. } => {
                    if conductivity > 0.0 {
                        r += l.e as f64 / conductivity as f64
                    } else {
                        return Some(None);
                    }
                }
                MatProps::Resistance { resistance, .. } => r += resistance as f64,
            },
        }
    }
    Some(Some(r))
}

fn thickness(m: &Model, cons: Uuid) -> f64 {
    m.cons.wallcons.iter().find(|c| c.id == cons).map_or(0.0, |c| c.layers.iter().map(|l| l.e as f64).sum())
}

fn rsi(t: TiltC) -> f64 {
    match t {
        TiltC::Bottom => RSI_DOWN,
        TiltC::Top => RSI_UP,
        TiltC::Side => RSI_H,
    }
}

fn space<'a>(m: &'a Model, id: Uuid) -> Option<&'a Space> {
    m.spaces.iter().find(|s| s.id == id)
}

fn space_walls<'a>(m: &'a Model, s: &Space) -> Vec<&'a Wall> {
    m.walls.iter().filter(|w| w.space == s.id || w.next_to == Some(s.id)).collect()
}

fn tclass(w: &Wall) -> TiltC {
    tilt_class(w.geometry.tilt as f64)
}

fn perimeter(p: &Polygon) -> f64 {
    let n = p.len();
    if n < 2 {
        return 0.0;
    }
    (0..n).map(|i| (((p[i].x - p[(i + 1) % n].x) as f64).powi(2) + ((p[i].y - p[(i + 1) % n].y) as f64).powi(2)).sqrt()).sum()
}

fn space_area(m: &Model, s: &Space) -> f64 {
    m.walls.iter().filter(|w| w.space == s.id && tclass(w) == TiltC::Bottom).map(|w| poly_area(&w.geometry.polygon)).sum()
}

/// net height as the implementation defines it: height minus the thickness of the FIRST ceiling element found
fn height_net(m: &Model, s: &Space) -> f64 {
    let top = m.walls.iter().find(|w| match tclass(w) {
        TiltC::Top => w.space == s.id,
        TiltC::Bottom => w.next_to == Some(s.id),
        TiltC::Side => false,
    });
    let th = top.map_or(0.0, |w| (thickness(m, w.cons) * 1000.0).round() / 1000.0);
    s.height as f64 - th
}

fn u_exterior(m: &Model, w: &Wall) -> Option<f64> {
    let r = resistance(m, w.cons)??;
    Some(1.0 / (r + rsi(tclass(w)) + RSE))
}

fn round2(x: f64) -> f64 {
    (x * 100.0).round() / 100.0
}

fn global_vent_rate(m: &Model) -> f64 {
    let vol: f64 = m.spaces.iter().filter(|s| s.inside_tenv && s.kind != SpaceType::UNINHABITED).map(|s| space_area(m, s) * height_net(m, s) * s.multiplier as f64).sum();
    match m.meta.global_ventilation_l_s {
        Some(q) => {
            if vol > 0.0 {
                3.6 * q as f64 / round2(vol)
            } else {
                0.0
            }
        }
        None => 0.0,
    }
}

/// d_t (10): area-weighted over the ground slabs of the space
fn slab_d_t(m: &Model, s: &Space) -> Option<f64> {
    let slabs: Vec<&Wall> = space_walls(m, s).into_iter().filter(|w| tclass(w) == TiltC::Bottom && w.bounds == BoundaryType::GROUND).collect();
    if slabs.is_empty() {
        return None;
    }
    let (mut e, mut a) = (0.0, 0.0);
    for sl in slabs {
        let ar = poly_area(&sl.geometry.polygon);
        a += ar;
        let r = resistance(m, sl.cons).flatten().unwrap_or(0.0);
        e += ar * (0.3 + LAMBDA_GND * (RSI_DOWN + r + RSE));
    }
    Some(e / a)
}

/// exposed perimeter (unrounded) and slab area of the FIRST ground slab of the space
fn slab_perimeter_area(m: &Model, s: &Space) -> Option<(f64, f64)> {
    let walls = space_walls(m, s);
    let slab = walls.iter().find(|w| w.space == s.id && tclass(w) == TiltC::Bottom && w.bounds == BoundaryType::GROUND)?;
    let a = poly_area(&slab.geometry.polygon);
    let (mut tot, mut ext) = (0.0, 0.0);
    for w in walls.iter().filter(|w| tclass(w) == TiltC::Side) {
        let ar = poly_area(&w.geometry.polygon);
        tot += ar;
        match w.bounds {
            BoundaryType::EXTERIOR | BoundaryType::GROUND => ext += ar,
            BoundaryType::INTERIOR => {
                if let Some(nx) = w.next_to.and_then(|n| space(m, n)) {
                    if s.kind == SpaceType::CONDITIONED && nx.kind != SpaceType::CONDITIONED {
                        ext += ar;
                    }
                }
            }
            BoundaryType::ADIABATIC => {}
        }
    }
    let p = if tot < 0.001 { 0.0 } else { perimeter(&slab.geometry.polygon) * ext / tot };
    Some((p, a))
}

pub fn u_ref(m: &Model, w: &Wall) -> Option<Iv> {
    u_ref_depth(m, w, 0)
}

fn u_ref_depth(m: &Model, w: &Wall, depth: usize) -> Option<Iv> {
    let r_opt = resistance(m, w.cons)?; // construction missing => None
    let t = tclass(w);
    match w.bounds {
        BoundaryType::EXTERIOR | BoundaryType::ADIABATIC => {
            let u = u_exterior(m, w)?;
            Some(Iv::point(u).widen(0.00501))
        }
        BoundaryType::INTERIOR => {
            let sp = space(m, w.space)?;
            let r = r_opt?;
            let Some(nt) = w.next_to else {
                return Some(Iv::point(1.0 / (r + 2.0 * rsi(t))).widen(0.00501));
            };
            let nx = space(m, nt)?;
            let (tc, nc) = (sp.kind == SpaceType::CONDITIONED, nx.kind == SpaceType::CONDITIONED);
            let r_f = match (tc, nc, t) {
                (true, false, TiltC::Bottom) | (false, true, TiltC::Top) => r + 2.0 * RSI_DOWN,
                (true, false, TiltC::Top) | (false, true, TiltC::Bottom) => r + 2.0 * RSI_UP,
                _ => r + 2.0 * RSI_H,
            };
            let unc = match (tc, nc) {
                (true, false) => nx,
                (false, true) => sp,
                _ => return Some(Iv::point(1.0 / r_f).widen(0.00501)),
            };
            if depth > 2 {
                return None;
            }
            // sum A_e U_e over exterior/ground elements of the unconditioned space (+ their windows)
            let (mut ua, mut ua_lo, mut ua_hi) = (0.0, 0.0, 0.0);
            for e in space_walls(m, unc).into_iter().filter(|e| matches!(e.bounds, BoundaryType::GROUND | BoundaryType::EXTERIOR)) {
                let Some(ue) = u_ref_depth(m, e, depth + 1) else { continue };
                let wins: Vec<&Window> = m.windows.iter().filter(|v| v.wall == e.id).collect();
                let net = poly_area(&e.geometry.polygon) - wins.iter().map(|v| (v.geometry.width * v.geometry.height) as f64).sum::<f64>();
                let mut win_au = 0.0;
                for v in wins {
                    if let Some(c) = m.cons.wincons.iter().find(|c| c.id == v.cons) {
                        if let Some(u) = crate::ind::wincons_u_ref(m, c) {
                            win_au += (v.geometry.width * v.geometry.height) as f64 * u;
                        }
                    }
                }
                ua += net * ue.nominal + win_au;
                ua_lo += (net - 0.005) * ue.lo.max(0.0) + win_au - 0.0051 * win_au.abs();
                ua_hi += (net + 0.005) * ue.hi + win_au + 0.0051 * win_au.abs();
            }
            let vol = space_area(m, unc) * height_net(m, unc);
            let n_v = unc.n_v.map(|x| x as f64).unwrap_or_else(|| global_vent_rate(m));
            let q = vol * n_v;
            let a_i = poly_area(&w.geometry.polygon);
            let f = |ua: f64| 1.0 / (r_f + a_i / (ua + 0.33 * q));
            let nominal = f(ua);
            Some(Iv::from_samples(nominal, &[f(ua_lo), f(ua_hi), f(ua)]).widen(0.00501 + 2e-4 * nominal.abs()))
        }
        BoundaryType::GROUND => {
            let u_w_exact = u_exterior(m, w)?;
            let sp = space(m, w.space)?;
            let d_t = slab_d_t(m, sp)?;
            let d_1 = m.meta.rn_perim_insulation as f64 * (LAMBDA_GND - LAMBDA_INS);
            let dd = m.meta.d_perim_insulation as f64;
            let psi = -LAMBDA_GND / PI * ((1.0 + dd / d_t).ln() - (1.0 + dd / (d_t + d_1)).ln());
            let z = (-(sp.z as f64)).max(0.0);
            match t {
                TiltC::Top => Some(Iv::point(u_w_exact).widen(0.00501)),
                TiltC::Bottom => {
                    let (p_exact, a) = slab_perimeter_area(m, sp).unwrap_or((0.0, 0.0));
                    let b_limit = d_t + 0.5 * z;
                    let u_of = |p: f64, db: f64, dpsi: f64| -> f64 {
                        let p = p.max(0.01);
                        let b = a / (0.5 * p) + db;
                        let u_bf = if b_limit < b { (2.0 * LAMBDA_GND / (PI * b + b_limit)) * (1.0 + PI * b / b_limit).ln() } else { LAMBDA_GND / (0.457 * b + b_limit) };
                        u_bf + 2.0 * (psi + dpsi) / b
                    };
                    if a < 0.001 {
                        return None; // degenerate: outside the verdict
                    }
                    let mut xs = vec![];
                    for dp in [-0.0051, 0.0, 0.0051] {
                        for db in [-0.0051, 0.0, 0.0051] {
                            for dpsi in [-0.00051, 0.0, 0.00051] {
                                xs.push(u_of(round2(p_exact) + dp, db, dpsi));
                                xs.push(u_of(p_exact + dp, db, dpsi));
                            }
                        }
                    }
                    let nominal = u_of(p_exact, 0.0, 0.0);
                    Some(Iv::from_samples(nominal, &xs).widen(0.00501))
                }
                TiltC::Side => {
                    if z.abs() < 0.01 {
                        return Some(Iv::point(u_w_exact).widen(0.00501));
                    }
                    let hn = height_net(m, sp);
                    let u_of = |u_w: f64, dbw: f64| -> f64 {
                        let d_w = LAMBDA_GND / u_w;
                        let dt = d_w.min(d_t);
                        let u_bw = (2.0 * LAMBDA_GND / (PI * z)) * (1.0 + 0.5 * dt / (dt + z)) * (z / d_w + 1.0).ln() + dbw;
                        let h = if hn > z { hn - z } else { 0.0 };
                        if h.abs() < 1e-7 {
                            u_bw
                        } else {
                            (z * u_bw + h * u_w) / hn
                        }
                    };
                    let mut xs = vec![];
                    for du in [-0.0051, 0.0, 0.0051] {
                        for dbw in [-0.0051, 0.0, 0.0051] {
                            xs.push(u_of(u_w_exact + du, dbw));
                            xs.push(u_of(round2(u_w_exact) + du, dbw));
                        }
                    }
                    let nominal = u_of(u_w_exact, 0.0);
                    Some(Iv::from_samples(nominal, &xs).widen(0.00501))
                }
            }
        }
    }
}
