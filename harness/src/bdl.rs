//! Independent BDL lexer (for re-printing / mutating real files) and printer (abstract documents -> text
//! in a chosen layout). Nothing here calls the code under test.

#[derive(Clone, Debug, PartialEq)]
pub enum AVal {
    Num(f32),
    /// string that HULC writes quoted
    Str(String),
    /// bare word (TYPE = PROPERTIES): may also be printed quoted
    Word(String),
    /// list of numbers
    NumList(Vec<f32>),
    /// list of integers (MONTH / DAY lists are always written as integers)
    IntList(Vec<u32>),
    /// list of quoted names
    NameList(Vec<String>),
    /// vertex `( x, y )` or `( x, y, z )`
    Point(Vec<f32>),
    /// raw text copied from a real file (value exactly as written, possibly multi-line joined with '\n')
    Raw(String),
}

#[derive(Clone, Debug)]
pub struct ABlock {
    pub name: String,
    pub btype: String,
    pub attrs: Vec<(String, AVal)>,
}

#[derive(Clone, Copy, Debug, PartialEq, Eq)]
pub struct Layout {
    pub crlf: bool,
    pub order: u8,     // 0 file, 1 reversed, 2 rotated
    pub numfmt: u8,    // 0 shortest, 1 %f (6 decimals), 2 right-aligned width 14, 3 exponent with explicit sign (7e+00), 4 shortest with an explicit plus sign on positive numbers
    pub quote_words: bool,
    pub lists: u8,     // 0 one line, 1 broken after every comma, 2 broken + closing paren on its own line, 3 broken before every comma
    pub comments: u8,  // 0 none, 1 between blocks, 2 between and inside blocks (+ blank lines)
    pub indent: u8,    // 0 none, 1 tab, 2 twelve spaces + trailing blanks
    pub preamble: bool,
}

impl Layout {
    pub fn all() -> Vec<Layout> {
        let mut v = vec![];
        for crlf in [false, true] {
            for order in 0..3 {
                for numfmt in 0..5 {
                    for quote_words in [false, true] {
                        for lists in 0..4 {
                            for comments in 0..3 {
                                for indent in 0..3 {
                                    for preamble in [false, true] {
                                        v.push(Layout { crlf, order, numfmt, quote_words, lists, comments, indent, preamble });
                                    }
                                }
                            }
                        }
                    }
                }
            }
        }
        v
    }
    pub fn plain() -> Layout {
        Layout { crlf: false, order: 0, numfmt: 0, quote_words: false, lists: 0, comments: 0, indent: 2, preamble: false }
    }
}

pub fn fmt_num(x: f32, numfmt: u8) -> String {
    match numfmt {
        0 => {
            if x == x.trunc() && x.abs() < 1e7 {
                format!("{}", x as i64)
            } else {
                format!("{}", x)
            }
        }
        1 => format!("{:.6}", x),
        2 => {
            let s = if x == x.trunc() && x.abs() < 1e7 { format!("{}", x as i64) } else { format!("{}", x) };
            format!("{:>14}", s)
        }
        4 => {
            let s = if x == x.trunc() && x.abs() < 1e7 { format!("{}", x as i64) } else { format!("{}", x) };
            if x > 0.0 {
                format!("+{}", s)
            } else {
                s
            }
        }
        _ => {
            // exponent notation with an explicit exponent sign, as in `VAPOUR-DIFFUSIVITY-FACTOR = 1e+30` of the legacy files
            let e = format!("{:e}", x);
            match e.split_once('e') {
                Some((m, ex)) if !ex.starts_with('-') => format!("{}e+{:0>2}", m, ex),
                Some((m, ex)) => format!("{}e-{:0>2}", m, ex.trim_start_matches('-')),
                None => e,
            }
        }
    }
}

fn fmt_val(v: &AVal, l: &Layout, ind: &str) -> String {
    let sep = |i: usize, n: usize| -> String {
        if i + 1 == n {
            String::new()
        } else if l.lists == 0 {
            ", ".to_string()
        } else if l.lists == 3 {
            format!("\n{}      , ", ind)
        } else {
            format!(",\n{}      ", ind)
        }
    };
    let close = if l.lists == 2 { format!("\n{}      )", ind) } else { ")".to_string() };
    match v {
        AVal::Num(x) => fmt_num(*x, l.numfmt),
        AVal::Str(s) => format!("\"{}\"", s),
        AVal::Word(s) => {
            if l.quote_words {
                format!("\"{}\"", s)
            } else {
                s.clone()
            }
        }
        AVal::NumList(xs) => {
            let mut s = "( ".to_string();
            for (i, x) in xs.iter().enumerate() {
                s += fmt_num(*x, if l.numfmt >= 2 { 0 } else { l.numfmt }).trim();
                s += &sep(i, xs.len());
            }
            s + &close
        }
        AVal::IntList(xs) => {
            let mut s = "( ".to_string();
            for (i, x) in xs.iter().enumerate() {
                s += &format!("{}", x);
                s += &sep(i, xs.len());
            }
            s + &close
        }
        AVal::NameList(xs) => {
            let mut s = "( ".to_string();
            for (i, x) in xs.iter().enumerate() {
                s += &format!("\"{}\"", x);
                s += &sep(i, xs.len());
            }
            s + &close
        }
        AVal::Point(xs) => {
            // vertices are always written on one line
            let items: Vec<String> = xs.iter().map(|x| fmt_num(*x, if l.numfmt >= 2 { 0 } else { l.numfmt }).trim().to_string()).collect();
            format!("( {} )", items.join(", "))
        }
        AVal::Raw(s) => s.clone(),
    }
}

pub const LIDER_PREAMBLE: &str = "$ +----------------------------------------------------+\nCAMBIO = SI\nCAMBIO-CALENER = NO\n     EEGeneradaAutoconsumida        = \"0\"\n     PANELFOTOVOLTAICOAUTOCONSUMIDO =              0\n           ENERGIAGT  = YES\n \"DATOS GENERALES\" = GENERAL-DATA\n     TYPE-HOUSING        = \"Unifamiliar\"\n     ZONE                = \"D3\"\n     ..\n";

pub fn print_doc(blocks: &[ABlock], l: &Layout) -> String {
    let mut out = String::new();
    if l.preamble {
        out += LIDER_PREAMBLE;
    }
    let ind = match l.indent {
        0 => "",
        1 => "\t",
        _ => "            ",
    };
    let trail = if l.indent == 2 { "   " } else { "" };
    for (bi, b) in blocks.iter().enumerate() {
        if l.comments >= 1 {
            out += "$ ----------------------------\n$ bloque\n";
            if bi % 2 == 0 {
                out += "\n";
            }
        }
        out += &format!("{}\"{}\" = {}{}\n", if l.indent == 1 { "  " } else { ind }, b.name, b.btype, trail);
        let mut attrs: Vec<&(String, AVal)> = b.attrs.iter().collect();
        match l.order {
            1 => attrs.reverse(),
            2 => {
                if attrs.len() > 1 {
                    attrs.rotate_left(1)
                }
            }
            _ => {}
        }
        for (ai, (k, v)) in attrs.iter().enumerate() {
            if l.comments == 2 && ai % 3 == 1 {
                out += "$ comentario interior\n\n";
            }
            let eq = if l.numfmt == 2 { format!("{:<18}= ", k) } else { format!("{} = ", k) };
            out += &format!("{}    {}{}{}\n", ind, eq, fmt_val(v, l, ind), trail);
        }
        out += &format!("{}    ..\n", ind);
    }
    if l.crlf {
        out = out.replace('\n', "\r\n");
    }
    out
}

// ---------------------------------------------------------------- lexer for real files

#[derive(Clone, Debug)]
pub struct RawBlock {
    pub name: String,
    pub btype: String,
    /// (key, raw value exactly as written; continuation lines joined with '\n')
    pub attrs: Vec<(String, String)>,
    /// 0-based line range [start, end] in the source (end = the `..` line)
    pub start: usize,
    pub end: usize,
}

#[derive(Clone, Debug, Default)]
pub struct Lexed {
    /// loose `key = value` lines before the first block (LIDER preamble) and lines skipped by the format
    pub preamble: Vec<String>,
    pub blocks: Vec<RawBlock>,
}

fn is_noise(l: &str) -> bool {
    l.is_empty() || l.starts_with('$') || l.starts_with('+') || l.starts_with("TEMPLARY") || l == "MARCOS" || l == "HUECOS" || l == "PUENTES TERMICOS"
}

/// Lex BDL text into blocks. Follows the file format (not the parser): a block is a header line
/// `"name" = TYPE` followed by attribute lines up to a line `..`
pub fn lex(text: &str) -> Lexed {
    let mut lx = Lexed::default();
    let lines: Vec<String> = text.replace("\r\n", "\n").replace('ÿ', "").lines().map(|l| l.to_string()).collect();
    let mut i = 0;
    let mut cur: Option<RawBlock> = None;
    while i < lines.len() {
        let t = lines[i].trim().to_string();
        if is_noise(&t) {
            i += 1;
            continue;
        }
        if t == ".." || t.ends_with(" ..") && cur.is_some() && !t.contains('=') {
            if let Some(mut b) = cur.take() {
                b.end = i;
                lx.blocks.push(b);
            }
            i += 1;
            continue;
        }
        match cur.as_mut() {
            None => {
                // header or loose preamble line
                if let Some((a, b)) = t.split_once('=') {
                    let (a, b) = (a.trim(), b.trim());
                    let is_header = b.chars().all(|c| c.is_ascii_uppercase() || c == '-') && !b.is_empty() && a.starts_with('"');
                    if is_header {
                        cur = Some(RawBlock { name: a.trim_matches('"').trim().to_string(), btype: b.to_string(), attrs: vec![], start: i, end: i });
                    } else {
                        lx.preamble.push(lines[i].clone());
                    }
                } else if t.ends_with("..") {
                    // one-line keyword blocks: END .., COMPUTE .., STOP ..
                    lx.blocks.push(RawBlock { name: String::new(), btype: t.clone(), attrs: vec![], start: i, end: i });
                } else {
                    // keyword blocks with attributes (SET-DEFAULT FOR ...), closed by `..`
                    cur = Some(RawBlock { name: String::new(), btype: t.clone(), attrs: vec![], start: i, end: i });
                }
                i += 1;
            }
            Some(b) => {
                if let Some((k, v)) = t.split_once('=') {
                    let mut val = v.trim().to_string();
                    if val.starts_with('(') && !val.ends_with(')') {
                        while i + 1 < lines.len() {
                            i += 1;
                            let c = lines[i].trim();
                            val.push('\n');
                            val.push_str(c);
                            if c.ends_with(')') {
                                break;
                            }
                        }
                    }
                    b.attrs.push((k.trim().to_string(), val));
                }
                i += 1;
            }
        }
    }
    lx
}

/// Re-print a lexed real file in a uniform layout (independent of the original layout)
pub fn reprint(lx: &Lexed, crlf: bool, indent: &str, blank_between: bool, comment_between: bool, break_lists: bool) -> String {
    let mut out = String::new();
    for p in &lx.preamble {
        out += p.trim();
        out += "\n";
    }
    for b in &lx.blocks {
        if comment_between {
            out += "$ ---\n";
        }
        if blank_between {
            out += "\n";
        }
        if b.name.is_empty() {
            out += &b.btype;
            out += "\n";
            if b.btype.ends_with("..") {
                continue;
            }
        } else {
            out += &format!("\"{}\" = {}\n", b.name, b.btype);
        }
        for (k, v) in &b.attrs {
            let v1 = if v.contains('\n') {
                if break_lists {
                    v.split('\n').map(|s| s.trim()).collect::<Vec<_>>().join(&format!("\n{}        ", indent))
                } else {
                    v.split('\n').map(|s| s.trim()).collect::<Vec<_>>().join("")
                }
            } else if break_lists && v.starts_with('(') && v.ends_with(')') && v.contains(',') && v.contains('"') && !k.starts_with('V') {
                // break a one-line list of names after every comma that follows a closing quote
                v.replace("\",", &format!("\",\n{}        ", indent))
            } else {
                v.clone()
            };
            out += &format!("{}{} = {}\n", indent, k, v1);
        }
        out += &format!("{}..\n", indent);
    }
    if crlf {
        out = out.replace('\n', "\r\n");
    }
    out
}

/// attribute keys whose value is the name of another definition (used by the reference resolver of C02/C19)
pub const REF_KEYS: [&str; 18] = [
    "POLYGON", "CONSTRUCTION", "LAYERS", "MATERIAL", "GLASS-TYPE", "NAME-FRAME", "GAP", "SPACE-CONDITIONS", "SYSTEM-CONDITIONS", "NEXT-TO", "DAY-SCHEDULES", "WEEK-SCHEDULES", "PEOPLE-SCHEDULE", "LIGHTING-SCHEDULE",
    "EQUIP-SCHEDULE", "HEAT-TEMP-SCH", "COOL-TEMP-SCH", "SPACE-TYPE",
];

pub fn names_in(v: &str) -> Vec<String> {
    let mut out = vec![];
    let mut inq = false;
    let mut cur = String::new();
    for c in v.chars() {
        if c == '"' {
            if inq {
                out.push(cur.clone());
                cur.clear();
            }
            inq = !inq;
        } else if inq {
            cur.push(c);
        }
    }
    if out.is_empty() {
        let t = v.trim();
        if !t.is_empty() && !t.starts_with('(') {
            out.push(t.to_string());
        }
    }
    out
}
