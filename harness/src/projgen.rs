//! Synthetic HULC projects: BDL geometry written by the harness's printer into the cubo.ctehexml wrapper
//! (materials, constructions, schedules and conditions are the shipped ones), plus the reference geometry
//! computed from the BDL conventions (child system = parent origin + clockwise rotation about its own origin).

use crate::common::*;
use crate::corpus;
use std::sync::OnceLock;

#[derive(Clone, Debug, PartialEq)]
pub struct Spec {
    pub outline: usize,    // 0 rectangle, 1 L, 2 triangle, 3 convex pentagon, 4 U, 5 rectangle with a repeated corner
    pub height: f32,       // storey height
    pub storeys: usize,    // 1 | 2
    pub offset: (f32, f32),
    pub space_az: f32,     // space AZIMUTH (clockwise from north, BDL)
    pub global_dev: f32,   // BUILD-PARAMETERS AZIMUTH
    pub window: usize,     // 0 none, 1 setback 0, 2 setback 0.2
    pub shade: usize,      // 0 none, 1 rectangle, 2 vertices vertical, 3 vertices 45 deg, 4 vertices horizontal, 5..7 rectangle facing down / up / sloped, 8 vertices: cross with twelve corners
    pub poly_roof: bool,   // roof defined by its own polygon (tilt 30)
}

pub const OUTLINES: [&[(f32, f32)]; 6] = [
    &[(0.0, 0.0), (10.0, 0.0), (10.0, 8.0), (0.0, 8.0)],
    &[(0.0, 0.0), (10.0, 0.0), (10.0, 4.0), (5.0, 4.0), (5.0, 9.0), (0.0, 9.0)],
    &[(0.0, 0.0), (9.0, 0.0), (2.0, 7.0)],
    &[(0.0, 0.0), (6.0, -1.0), (9.0, 3.0), (5.0, 8.0), (-1.0, 5.0)],
    &[(0.0, 0.0), (12.0, 0.0), (12.0, 8.0), (8.0, 8.0), (8.0, 3.0), (4.0, 3.0), (4.0, 8.0), (0.0, 8.0)],
    // a rectangle whose second corner is written twice (HULC does write such outlines): the edge V2-V3 has no length
    // and carries no wall, the walls on V3..V5 keep their numbers
    &[(0.0, 0.0), (10.0, 0.0), (10.0, 0.0), (10.0, 8.0), (0.0, 8.0)],
];

/// an edge of zero length carries no wall
pub fn edge_is_degenerate(o: &[(f32, f32)], i: usize) -> bool {
    o[i] == o[(i + 1) % o.len()]
}

pub const WIN: (f32, f32, f32, f32) = (1.5, 0.75, 2.0, 1.25); // x, y, width, height on the wall of edge V1

struct Template {
    prefix: String,
    suffix: String,
    kept_bdl: String,
}

pub const SECOND_SYSTEM_CONDITIONS: &str = "Consignas vivienda";
pub const OWN_MATERIAL: &str = "Ladrillo propio 24 cm";
pub const OWN_LAYERS: &str = "Muro propio";

fn template() -> &'static Template {
    static T: OnceLock<Template> = OnceLock::new();
    T.get_or_init(|| {
        let path = format!("{}/cubo/cubo.ctehexml", corpus::tests_dir());
        let t = corpus::read_utf8(&path);
        let a = t.find("<EntradaGraficaLIDER>").expect("wrapper") + "<EntradaGraficaLIDER>".len();
        let b = t.find("</EntradaGraficaLIDER>").expect("wrapper");
        let inner = t[a..b].trim();
        let bdl = inner.trim_start_matches("<![CDATA[").trim_end_matches("]]>");
        let lines: Vec<&str> = bdl.lines().collect();
        let lx = crate::bdl::lex(bdl);
        let drop = ["FLOOR", "POLYGON", "SPACE", "EXTERIOR-WALL", "INTERIOR-WALL", "UNDERGROUND-WALL", "ROOF", "CONSTRUCTION", "WINDOW", "BUILDING-SHADE"];
        let mut dropped = vec![false; lines.len()];
        for b in &lx.blocks {
            if drop.contains(&b.btype.as_str()) {
                for i in b.start..=b.end {
                    dropped[i] = true;
                }
            }
        }
        let kept: Vec<&str> = lines.iter().enumerate().filter(|(i, _)| !dropped[*i]).map(|(_, l)| *l).collect();
        // a second set-point definition under its own name (the upper storeys use it together with the loads "Residencial":
        // the two kinds of conditions of a space need not share a name)
        let mut extra = String::new();
        if let Some(bl) = lx.blocks.iter().find(|b| b.btype == "SYSTEM-CONDITIONS") {
            for l in &lines[bl.start..=bl.end] {
                extra.push_str(&l.replace(&format!("\"{}\"", bl.name), &format!("\"{}\"", SECOND_SYSTEM_CONDITIONS)));
                extra.push('\n');
            }
        }
        // a material and a composition defined by the project itself (the shipped compositions only use catalogue
        // materials): the wall on the second edge of every storey is built of it
        extra.push_str(&format!("\"{}\" = MATERIAL\n    TYPE = PROPERTIES\n    CONDUCTIVITY = 0.5\n    DENSITY = 1000\n    SPECIFIC-HEAT = 1000\n    ..\n\"{}\" = LAYERS\n    MATERIAL = (\"{}\")\n    THICKNESS = ( 0.24)\n    ..\n", OWN_MATERIAL, OWN_LAYERS, OWN_MATERIAL));
        Template { prefix: format!("{}<![CDATA[", &t[..a]), suffix: format!("]]>{}", &t[b..]), kept_bdl: format!("{}\n{}", kept.join("\n"), extra) }
    })
}

fn f(x: f32) -> String {
    crate::bdl::fmt_num(x, 0)
}

pub fn space_name(k: usize) -> String {
    format!("P{:02}_E01", k + 1)
}

pub fn wall_name(k: usize, i: usize) -> String {
    format!("P{:02}_E01_PE{:03}", k + 1, i + 1)
}

/// geometry blocks of the building
/// every other building writes its positive placement numbers (X, Y, Z, AZIMUTH of floors, spaces, walls, shades and
/// the deviation of the building) with an explicit plus sign, as BDL allows
pub fn writes_plus_signs(s: &Spec) -> bool {
    (s.outline + s.storeys + s.window + s.shade) % 2 == 1
}

fn with_plus_signs(text: &str) -> String {
    let mut out = String::with_capacity(text.len() + 64);
    for l in text.split_inclusive('\n') {
        let t = l.trim();
        let plus = t.split_once('=').and_then(|(k, v)| {
            let (k, v) = (k.trim(), v.trim());
            if ["X", "Y", "Z", "AZIMUTH"].contains(&k) && v.parse::<f32>().map_or(false, |x| x > 0.0) && !v.starts_with('+') {
                Some(v.to_string())
            } else {
                None
            }
        });
        match plus {
            Some(v) => out.push_str(&l.replacen(&v, &format!("+{}", v), 1)),
            None => out.push_str(l),
        }
    }
    out
}

pub fn geometry_bdl(s: &Spec) -> String {
    let t = geometry_bdl_plain(s);
    if writes_plus_signs(s) {
        with_plus_signs(&t)
    } else {
        t
    }
}

fn geometry_bdl_plain(s: &Spec) -> String {
    let o = OUTLINES[s.outline];
    let mut t = String::new();
    let cons = |t: &mut String, name: &str, layers: &str| {
        t.push_str(&format!("\"{}\" = CONSTRUCTION\n    TYPE = LAYERS\n    LAYERS = \"{}\"\n    ABSORPTANCE = 0.600000\n    ..\n", name, layers));
    };
    for k in 0..s.storeys {
        let sp = space_name(k);
        t.push_str(&format!("\"{}_Pol\" = POLYGON\n", sp));
        for (i, v) in o.iter().enumerate() {
            t.push_str(&format!("    V{}   =( {}, {} )\n", i + 1, f(v.0), f(v.1)));
        }
        t.push_str("    ..\n");
        t.push_str(&format!("\"P{:02}\" = FLOOR\n    POLYGON = \"{}_Pol\"\n    Z = {}\n    FLOOR-HEIGHT = {}\n    SPACE-HEIGHT = {}\n    MULTIPLIER = 1\n    SHAPE = POLYGON\n    PREVIOUS = \"{}\"\n    ..\n", k + 1, sp, f(k as f32 * s.height), f(s.height), f(s.height), if k == 0 { "Ninguna".to_string() } else { format!("P{:02}", k) }));
        t.push_str(&format!(
            "\"{}\" = SPACE\n    nCompleto = \"{}\"\n    HEIGHT = {}\n    SHAPE = POLYGON\n    POLYGON = \"{}_Pol\"\n    X = {}\n    Y = {}\n    Z = {}\n    AZIMUTH = {}\n    TYPE = CONDITIONED\n    SPACE-TYPE = \"Residencial\"\n    SYSTEM-CONDITIONS = \"{}\"\n    SPACE-CONDITIONS = \"Residencial\"\n    MULTIPLIER = 1\n    MULTIPLIED = 0\n    perteneceALaEnvolventeTermica = SI\n    POWER = 4.4\n    VEEI-OBJ = 7.000000\n    VEEI-REF = 10.000000\n    ..\n",
            sp,
            sp,
            f(s.height),
            sp,
            f(s.offset.0),
            f(s.offset.1),
            f(space_z(s) as f32),
            f(s.space_az),
            if k == 0 { "Residencial" } else { SECOND_SYSTEM_CONDITIONS }
        ));
        for i in 0..o.len() {
            if edge_is_degenerate(o, i) {
                continue;
            }
            let w = wall_name(k, i);
            if i == 1 {
                t.push_str(&format!("\"{}\" = EXTERIOR-WALL\n    ABSORPTANCE = 0.6\n    CONSTRUCTION = \"{}0.60\"\n    LOCATION = SPACE-V{}\n    ..\n", w, OWN_LAYERS, i + 1));
                cons(&mut t, &format!("{}0.60", OWN_LAYERS), OWN_LAYERS);
            } else {
                t.push_str(&format!("\"{}\" = EXTERIOR-WALL\n    ABSORPTANCE = 0.6\n    CONSTRUCTION = \"Fachada por defecto D0.60\"\n    LOCATION = SPACE-V{}\n    ..\n", w, i + 1));
                cons(&mut t, "Fachada por defecto D0.60", "Fachada por defecto D");
            }
            if i == 0 && s.window > 0 {
                t.push_str(&format!(
                    "\"{}_V\" = WINDOW\n    X = {}\n    Y = {}\n    SETBACK = {}\n    HEIGHT = {}\n    WIDTH = {}\n    GAP = \"Doble -- Mrpt - Gris claro\"\n    COEFF = ( 1.000000, 1.000000, 1.000000, 1.000000)\n    ..\n",
                    w,
                    f(WIN.0),
                    f(WIN.1),
                    f(if s.window == 2 { 0.2 } else { 0.0 }),
                    f(WIN.3),
                    f(WIN.2)
                ));
            }
        }
        // floor
        if k == 0 {
            t.push_str(&format!("\"{}_FTER001\" = UNDERGROUND-WALL\n    Z-GROUND = 0\n    CONSTRUCTION = \"Contacto por defecto\"\n    LOCATION = BOTTOM\n    ..\n", sp));
            cons(&mut t, "Contacto por defecto", "Contacto por defecto");
        } else {
            t.push_str(&format!("\"{}_FI001\" = INTERIOR-WALL\n    INT-WALL-TYPE = STANDARD\n    NEXT-TO = \"{}\"\n    CONSTRUCTION = \"PIH por defecto\"\n    LOCATION = BOTTOM\n    ..\n", sp, space_name(k - 1)));
            cons(&mut t, "PIH por defecto", "PIH por defecto");
        }
        // ceiling of the top storey
        if k + 1 == s.storeys {
            if s.poly_roof {
                // a sloped roof (30 deg) over the first edge: its own polygon, origin at vertex 1 at the top of the storey
                let e = ((o[1].0 - o[0].0).powi(2) + (o[1].1 - o[0].1).powi(2)).sqrt();
                t.push_str(&format!("\"{}_CubPol\" = POLYGON\n    V1 =( 0, 0 )\n    V2 =( {}, 0 )\n    V3 =( {}, 3 )\n    V4 =( 0, 3 )\n    ..\n", sp, f(e), f(e)));
                // azimuth of the roof = azimuth of the first edge's outward normal (relative to the space)
                let az = edge_normal_azimuth(o[0], o[1]);
                // (every other one also says LOCATION = TOP, as a roof may: its own polygon, position and azimuth still hold)
                let loc = if (s.outline + s.storeys) % 2 == 0 { "    LOCATION = TOP\n" } else { "" };
                t.push_str(&format!("\"{}_CUB001\" = ROOF\n    ABSORPTANCE = 0.6\n    CONSTRUCTION = \"PIV por defecto\"\n{}    X = {}\n    Y = {}\n    Z = {}\n    AZIMUTH = {}\n    TILT = 30\n    POLYGON = \"{}_CubPol\"\n    ..\n", sp, loc, f(o[0].0), f(o[0].1), f(s.height), f(az), sp));
            } else {
                t.push_str(&format!("\"{}_CUB001\" = ROOF\n    ABSORPTANCE = 0.6\n    CONSTRUCTION = \"PIV por defecto\"\n    LOCATION = TOP\n    ..\n", sp));
            }
            cons(&mut t, "PIV por defecto", "PIV por defecto");
        }
    }
    match s.shade {
        1 => t.push_str("\"Sombra001\" = BUILDING-SHADE\n    BULB-TRA = \"Default.bulb\"\n    BULB-REF = \"Default.bulb\"\n    TRAN = 0\n    REFL = 0.7\n    X = 2\n    Y = -6\n    Z = 0.5\n    HEIGHT = 4\n    WIDTH = 7\n    AZIMUTH = 150\n    TILT = 90\n    ..\n"),
        5 | 6 | 7 => {
            let (az, tilt) = rect_shade_pose(s.shade).unwrap();
            t.push_str(&format!("\"Sombra001\" = BUILDING-SHADE\n    TRAN = 0\n    REFL = 0.7\n    X = 2\n    Y = -6\n    Z = 0.5\n    HEIGHT = 4\n    WIDTH = 7\n    AZIMUTH = {}\n    TILT = {}\n    ..\n", az, tilt));
        }
        2 => t.push_str("\"Sombra001\" = BUILDING-SHADE\n    TRAN = 0\n    REFL = 0.7\n    V1 =( 2, -5, 0 )\n    V2 =( 8, -6, 0 )\n    V3 =( 8, -6, 4 )\n    V4 =( 2, -5, 4 )\n    ..\n"),
        3 => t.push_str("\"Sombra001\" = BUILDING-SHADE\n    TRAN = 0\n    REFL = 0.7\n    V1 =( 2, -5, 1 )\n    V2 =( 8, -5, 1 )\n    V3 =( 8, -8, 4 )\n    V4 =( 2, -8, 4 )\n    ..\n"),
        4 => t.push_str("\"Sombra001\" = BUILDING-SHADE\n    TRAN = 0\n    REFL = 0.7\n    V1 =( 2, -1, 5 )\n    V2 =( 2, -4, 5 )\n    V3 =( 7.5, -4, 5 )\n    V4 =( 7.5, -1, 5 )\n    ..\n"),
        8 => {
            let mut b = String::from("\"Sombra001\" = BUILDING-SHADE\n    TRAN = 0\n    REFL = 0.7\n");
            for (i, p) in cross_shade_corners().iter().enumerate() {
                b += &format!("    V{} =( {}, {}, {} )\n", i + 1, f(p[0] as f32), f(p[1] as f32), f(p[2] as f32));
            }
            b += "    ..\n";
            t.push_str(&b);
        }
        _ => {}
    }
    t
}

/// a cross with twelve corners in a plane sloped like shade 3 (u along +x, v along (0,-0.6,0.8)), from (2,-5,1)
pub fn cross_shade_corners() -> Vec<P3> {
    let uv = [(1.0, 0.0), (2.0, 0.0), (2.0, 1.0), (3.0, 1.0), (3.0, 2.0), (2.0, 2.0), (2.0, 3.0), (1.0, 3.0), (1.0, 2.0), (0.0, 2.0), (0.0, 1.0), (1.0, 1.0)];
    uv.iter().map(|(u, v): &(f64, f64)| [2.0 + u * 1.5, -5.0 - 0.6 * v * 1.25, 1.0 + 0.8 * v * 1.25]).collect()
}

/// azimuth (BDL: clockwise from north = +y) of the outward normal of edge a->b of a counter-clockwise outline
pub fn edge_normal_azimuth(a: (f32, f32), b: (f32, f32)) -> f32 {
    let (dx, dy) = ((b.0 - a.0) as f64, (b.1 - a.1) as f64);
    // outward normal = direction rotated by -90 deg: (dy, -dx)
    let (nx, ny) = (dy, -dx);
    let az = nx.atan2(ny).to_degrees(); // clockwise from +y
    (az.rem_euclid(360.0)) as f32
}

pub fn bdl_text(s: &Spec) -> String {
    let t = template();
    let mut kept = t.kept_bdl.clone();
    // global deviation
    let needle = "AZIMUTH   = 0.000000";
    assert!(kept.contains(needle), "template BUILD-PARAMETERS AZIMUTH line not found");
    kept = kept.replacen(needle, &format!("AZIMUTH   = {}{:.6}", if writes_plus_signs(s) && s.global_dev > 0.0 { "+" } else { "" }, s.global_dev), 1);
    format!("{}\n{}", kept, geometry_bdl(s))
}

pub fn ctehexml_text(s: &Spec) -> String {
    let t = template();
    format!("{}{}{}", t.prefix, bdl_text(s), t.suffix)
}

/// BDL text with extra raw blocks appended (used by the id-locality check of C05)
pub fn ctehexml_with_extra(s: &Spec, extra_bdl: &str) -> String {
    let t = template();
    format!("{}{}\n{}{}", t.prefix, bdl_text(s), extra_bdl, t.suffix)
}

// ---------------------------------------------------------------- reference geometry (f64, BDL conventions)

pub type P3 = [f64; 3];

fn rot_cw(p: (f64, f64), deg: f64) -> (f64, f64) {
    // clockwise rotation by `deg` about z (BDL azimuths are clockwise from north)
    let a = (-deg).to_radians();
    (p.0 * a.cos() - p.1 * a.sin(), p.0 * a.sin() + p.1 * a.cos())
}

/// space coordinates -> world: world = R_cw(dev) ( R_cw(space_az) p + offset )
pub fn space_to_world(s: &Spec, p: (f64, f64), z: f64) -> P3 {
    let q = rot_cw(p, s.space_az as f64);
    let q = (q.0 + s.offset.0 as f64, q.1 + s.offset.1 as f64);
    let w = rot_cw(q, s.global_dev as f64);
    [w.0, w.1, z]
}

pub fn building_to_world(s: &Spec, p: P3) -> P3 {
    let w = rot_cw((p[0], p[1]), s.global_dev as f64);
    [w.0, w.1, p[2]]
}

pub struct RefWall {
    pub name: String,
    pub corners: Vec<P3>,
    /// expected outward normal (unit), None when not asserted
    pub normal: Option<P3>,
    pub area: f64,
    pub kind: &'static str,
}

pub fn poly_area(o: &[(f32, f32)]) -> f64 {
    let n = o.len();
    (0..n).map(|i| o[i].0 as f64 * o[(i + 1) % n].1 as f64 - o[i].1 as f64 * o[(i + 1) % n].0 as f64).sum::<f64>().abs() / 2.0
}

/// the level of a space above its storey (the SPACE block's own Z): offset spaces are also raised
pub fn space_z(s: &Spec) -> f64 {
    if s.offset.0 != 0.0 {
        1.2
    } else {
        0.0
    }
}

pub fn reference(s: &Spec) -> Vec<RefWall> {
    let o = OUTLINES[s.outline];
    let h = s.height as f64;
    let mut v = vec![];
    for k in 0..s.storeys {
        let z0 = k as f64 * h + space_z(s);
        let sp = space_name(k);
        for i in 0..o.len() {
            if edge_is_degenerate(o, i) {
                continue;
            }
            let (a, b) = (o[i], o[(i + 1) % o.len()]);
            let (a, b) = ((a.0 as f64, a.1 as f64), (b.0 as f64, b.1 as f64));
            let corners = vec![space_to_world(s, a, z0), space_to_world(s, b, z0), space_to_world(s, b, z0 + h), space_to_world(s, a, z0 + h)];
            let len = ((b.0 - a.0).powi(2) + (b.1 - a.1).powi(2)).sqrt();
            // outward normal in space coords: (dy, -dx)/len, then rotated like a direction
            let n_s = ((b.1 - a.1) / len, -(b.0 - a.0) / len);
            let n1 = rot_cw(n_s, s.space_az as f64);
            let n2 = rot_cw(n1, s.global_dev as f64);
            v.push(RefWall { name: wall_name(k, i), corners, normal: Some([n2.0, n2.1, 0.0]), area: len * h, kind: "space-vertex wall" });
        }
        let outline_at = |z: f64| -> Vec<P3> { o.iter().map(|p| space_to_world(s, (p.0 as f64, p.1 as f64), z)).collect() };
        let fname = if k == 0 { format!("{}_FTER001", sp) } else { format!("{}_FI001", sp) };
        v.push(RefWall { name: fname, corners: outline_at(z0), normal: Some([0.0, 0.0, -1.0]), area: poly_area(o), kind: "floor by outline" });
        if k + 1 == s.storeys {
            if s.poly_roof {
                // polygon-defined roof: origin at vertex 1 at the top; local x along the first edge, local y up the slope (tilt 30) towards the inside
                let (a, b) = ((o[0].0 as f64, o[0].1 as f64), (o[1].0 as f64, o[1].1 as f64));
                let len = ((b.0 - a.0).powi(2) + (b.1 - a.1).powi(2)).sqrt();
                let ex = ((b.0 - a.0) / len, (b.1 - a.1) / len);
                let inward = (-ex.1, ex.0); // rotate +90: inside of a CCW outline is to the left
                let t = 30f64.to_radians();
                let pt = |u: f64, w: f64| -> P3 {
                    // u along the edge, w along the slope
                    let p = (a.0 + ex.0 * u + inward.0 * w * t.cos(), a.1 + ex.1 * u + inward.1 * w * t.cos());
                    space_to_world(s, p, z0 + h + w * t.sin())
                };
                v.push(RefWall { name: format!("{}_CUB001", sp), corners: vec![pt(0.0, 0.0), pt(len, 0.0), pt(len, 3.0), pt(0.0, 3.0)], normal: None, area: len * 3.0, kind: "polygon roof" });
            } else {
                v.push(RefWall { name: format!("{}_CUB001", sp), corners: outline_at(z0 + h), normal: Some([0.0, 0.0, 1.0]), area: poly_area(o), kind: "ceiling by outline" });
            }
        }
    }
    v
}

/// (azimuth, tilt) of the rectangle-defined shades: vertical, facing down (the end of the legal tilt range), facing up, sloped
pub fn rect_shade_pose(shade: usize) -> Option<(f64, f64)> {
    match shade {
        1 => Some((150.0, 90.0)),
        5 => Some((150.0, 180.0)),
        6 => Some((30.0, 0.0)),
        7 => Some((300.0, 45.0)),
        _ => None,
    }
}

/// reference corners of the shade (building coordinates rotated by the global deviation)
pub fn reference_shade(s: &Spec) -> Option<Vec<P3>> {
    let b = |p: P3| building_to_world(s, p);
    match s.shade {
        1 | 5 | 6 | 7 => {
            // X=2 Y=-6 Z=0.5 H=4 W=7 AZ TILT: origin lower-left seen from outside; width to the right
            let (az, tilt) = rect_shade_pose(s.shade).unwrap();
            let (az, tilt) = (az.to_radians(), tilt.to_radians());
            let n = [tilt.sin() * az.sin(), tilt.sin() * az.cos(), tilt.cos()];
            let x = [-az.cos(), az.sin(), 0.0];
            let y = [n[1] * x[2] - n[2] * x[1], n[2] * x[0] - n[0] * x[2], n[0] * x[1] - n[1] * x[0]];
            let o = [2.0, -6.0, 0.5];
            let p = |u: f64, v: f64| [o[0] + x[0] * u + y[0] * v, o[1] + x[1] * u + y[1] * v, o[2] + x[2] * u + y[2] * v];
            Some(vec![b(p(0.0, 0.0)), b(p(7.0, 0.0)), b(p(7.0, 4.0)), b(p(0.0, 4.0))])
        }
        2 => Some(vec![b([2.0, -5.0, 0.0]), b([8.0, -6.0, 0.0]), b([8.0, -6.0, 4.0]), b([2.0, -5.0, 4.0])]),
        3 => Some(vec![b([2.0, -5.0, 1.0]), b([8.0, -5.0, 1.0]), b([8.0, -8.0, 4.0]), b([2.0, -8.0, 4.0])]),
        4 => Some(vec![b([2.0, -1.0, 5.0]), b([2.0, -4.0, 5.0]), b([7.5, -4.0, 5.0]), b([7.5, -1.0, 5.0])]),
        8 => Some(cross_shade_corners().into_iter().map(b).collect()),
        _ => None,
    }
}

pub fn all_specs(tier: Tier) -> Vec<Spec> {
    let mut v = vec![];
    let devs: Vec<f32> = tier.pick(vec![0.0, 90.0, 290.0], vec![0.0, 90.0, 180.0, 290.0, 37.5]);
    let heights: Vec<f32> = tier.pick(vec![2.5], vec![2.5, 3.1]);
    for outline in 0..6 {
        for &height in &heights {
            for storeys in 1..=2 {
                for offset in [(0.0, 0.0), (3.0, -2.0)] {
                    for space_az in [0.0f32, 90.0, 30.0] {
                        for &global_dev in &devs {
                            for window in 0..3 {
                                for shade in 0..9 {
                                    // shade and window dimensions are independent of the rest: pair them cyclically in quick
                                    if tier == Tier::Quick && (shade + window + outline) % 3 != 0 {
                                        continue;
                                    }
                                    v.push(Spec { outline, height, storeys, offset, space_az, global_dev, window, shade, poly_roof: false });
                                }
                            }
                            v.push(Spec { outline, height, storeys, offset, space_az, global_dev, window: 1, shade: 0, poly_roof: true });
                        }
                    }
                }
            }
        }
    }
    v
}

/// a handful of synthetic project directories for the process-level checks (C01/C05)
pub fn write_synthetic_dirs(root: &str, tier: Tier) {
    let specs: Vec<Spec> = vec![
        Spec { outline: 0, height: 2.5, storeys: 1, offset: (0.0, 0.0), space_az: 0.0, global_dev: 0.0, window: 1, shade: 0, poly_roof: false },
        Spec { outline: 1, height: 3.1, storeys: 2, offset: (0.0, 0.0), space_az: 0.0, global_dev: 37.5, window: 2, shade: 1, poly_roof: false },
        Spec { outline: 4, height: 2.5, storeys: 1, offset: (3.0, -2.0), space_az: 0.0, global_dev: 290.0, window: 2, shade: 3, poly_roof: true },
        Spec { outline: 3, height: 2.5, storeys: 2, offset: (0.0, 0.0), space_az: 0.0, global_dev: 180.0, window: 0, shade: 4, poly_roof: false },
    ];
    let n = tier.pick(2, specs.len());
    for (i, s) in specs.iter().take(n).enumerate() {
        let d = format!("{}/gen{:02}", root, i);
        std::fs::create_dir_all(&d).unwrap();
        std::fs::write(format!("{}/gen{:02}.ctehexml", d, i), ctehexml_text(s)).unwrap();
        if i % 2 == 1 {
            // KyG + tbl written by the harness (walls of the generated building)
            let mut kyg = String::from("###;Datos para Factor de Pérdidas\n");
            let mut tbl_e = vec![];
            for k in 0..s.storeys {
                for e in (0..OUTLINES[s.outline].len()).filter(|e| !edge_is_degenerate(OUTLINES[s.outline], *e)) {
                    kyg += &format!("Muro;{};10.00;0.45;1.00;Fachada;S ;Fachada por defecto D\n", wall_name(k, e));
                }
                if k > 0 {
                    tbl_e.push(format!("{}_FI001", space_name(k)));
                }
            }
            if s.window > 0 {
                kyg += &format!("Ventana;{}_V;2.50;3.25;S ;12.50;0.75;-1.00;1.00;27.00;Doble -- Mrpt - Gris claro\n", wall_name(0, 0));
                kyg += &format!("\"{}_V\"; 180.000000; 2.500000; 80000.000000; 50000.000000; 48000.000000; 40000.000000; 43337.710938\n", wall_name(0, 0));
            }
            kyg += "Coeficiente K = ;0,520\n###;Fin\n";
            std::fs::write(format!("{}/KyGananciasSolares.txt", d), kyg.chars().map(|c| if (c as u32) < 256 { c as u32 as u8 } else { b'?' }).collect::<Vec<u8>>()).unwrap();
            let mut tbl = String::from("Nombre\n A U p f fv angNorte tilt tipo codigo0 codigo1\n");
            tbl += &format!("{} 0\n", tbl_e.len());
            for (j, e) in tbl_e.iter().enumerate() {
                tbl += &format!("\"{}\"\n 80.000000 1.250000 0.000000 0.000000 0.000000 0.000000 180.000000 -5 {} -1\n", e, j);
            }
            std::fs::write(format!("{}/NewBDL_O.tbl", d), tbl).unwrap();
        }
    }
    // project names (the title a user types) of every byte layout: 2-, 3- and 4-byte letters starting at every offset
    // modulo their width, the empty name and a very long one
    let mut names: Vec<String> = vec![String::new(), "x".repeat(300)];
    for (letter, width) in [("ñ", 2usize), ("€", 3), ("𝄞", 4)] {
        for p in 0..width {
            names.push(format!("{}{}", "a".repeat(p), letter.repeat(40)));
        }
    }
    let base_text = ctehexml_text(&specs[0]);
    for (k, name) in names.iter().enumerate().take(tier.pick(names.len(), names.len())) {
        if let (Some(a), Some(b)) = (base_text.find("<nomPro>"), base_text.find("</nomPro>")) {
            let d = format!("{}/name{:02}", root, k);
            std::fs::create_dir_all(&d).unwrap();
            std::fs::write(format!("{}/name{:02}.ctehexml", d, k), format!("{}<nomPro>{}{}", &base_text[..a], name, &base_text[b..])).unwrap();
        }
    }
    // a directory whose name holds blanks and non-ASCII letters, and one that holds only the KyG file of the pair
    let d = format!("{}/proyecto ñ con espacios (copia)", root);
    std::fs::create_dir_all(&d).unwrap();
    std::fs::write(format!("{}/edificio nº 1.ctehexml", d), ctehexml_text(&specs[1])).unwrap();
    let src = format!("{}/gen01", root);
    let d = format!("{}/only-kyg", root);
    std::fs::create_dir_all(&d).unwrap();
    let _ = std::fs::copy(format!("{}/gen01.ctehexml", src), format!("{}/only-kyg.ctehexml", d));
    let _ = std::fs::copy(format!("{}/KyGananciasSolares.txt", src), format!("{}/KyGananciasSolares.txt", d));
    // result file that only speaks about the windows (no wall lines): the export then carries window overrides only
    let d = format!("{}/kyg-windows-only", root);
    std::fs::create_dir_all(&d).unwrap();
    let _ = std::fs::copy(format!("{}/gen01.ctehexml", src), format!("{}/kyg-windows-only.ctehexml", d));
    if let Ok(k) = std::fs::read(format!("{}/KyGananciasSolares.txt", src)) {
        let text: String = k.iter().map(|b| *b as char).collect();
        let kept: Vec<&str> = text.lines().filter(|l| !l.starts_with("Muro")).collect();
        let _ = std::fs::write(format!("{}/KyGananciasSolares.txt", d), kept.join("\n").chars().map(|c| if (c as u32) < 256 { c as u32 as u8 } else { b'?' }).collect::<Vec<u8>>());
    }
    // the project of gen01 with every name kept and other contents behind the project's own material and layers
    let d = format!("{}/same-names-other-contents", root);
    std::fs::create_dir_all(&d).unwrap();
    let t = ctehexml_text(&specs[1]).replacen("CONDUCTIVITY = 0.5\n    DENSITY = 1000", "CONDUCTIVITY = 0.25\n    DENSITY = 1400", 1).replacen("THICKNESS = ( 0.24)", "THICKNESS = ( 0.115)", 1);
    std::fs::write(format!("{}/same-names-other-contents.ctehexml", d), t).unwrap();
    // the project of gen01 with its shade stated twice, word for word (the same thing said twice is still one project)
    let d = format!("{}/shade-stated-twice", root);
    std::fs::create_dir_all(&d).unwrap();
    let t = ctehexml_text(&specs[1]);
    if let Some(a) = t.find("\"Sombra001\" = BUILDING-SHADE") {
        if let Some(e) = t[a..].find("\n    ..\n") {
            let b = a + e + 8;
            let t2 = format!("{}{}{}", &t[..b], &t[a..b], &t[b..]);
            std::fs::write(format!("{}/shade-stated-twice.ctehexml", d), t2).unwrap();
        }
    }
    let d = format!("{}/only-tbl", root);
    std::fs::create_dir_all(&d).unwrap();
    let _ = std::fs::copy(format!("{}/gen01.ctehexml", src), format!("{}/only-tbl.ctehexml", d));
    let _ = std::fs::copy(format!("{}/NewBDL_O.tbl", src), format!("{}/NewBDL_O.tbl", d));
}
