//! C05 — deterministic, reproducible, history- and schedule-independent
//! E3 histories (fresh process per history), id locality, E4 schedules (hooked lock sites), E5 fresh processes,
//! reference (project, model) pairs.

use crate::common::*;
use crate::corpus::{self, Outcome};
use crate::gen::*;
use crate::projgen::{self, Spec};
use crate::sched;
use crate::sup;
use bemodel::*;
use serde_json::{json, Value};
use std::collections::{BTreeMap, HashSet};
use std::sync::{Arc, Mutex};

// ---------------------------------------------------------------- operations

fn spec0() -> Spec {
    Spec { outline: 1, height: 2.5, storeys: 2, offset: (0.0, 0.0), space_az: 0.0, global_dev: 37.5, window: 2, shade: 1, poly_roof: false }
}

fn model_canary() -> Model {
    // a Canary-islands zone (different July sun table than the peninsular zones) with a shaded window
    let mut m = simple_box(zone("A3c"));
    m.shades.push(Shade { id: uid("sh"), name: "sh".into(), geometry: geom(90.0, 0.0, Some([2.0, -3.0, 0.0]), rect(6.0, 4.0)), ..Default::default() });
    m
}

fn model_failing() -> Model {
    // dangling references everywhere + inconsistent schedules: the computation returns early / degrades
    let mut m = simple_box(zone("E1"));
    m.windows[0].wall = uid("missing-wall");
    m.walls[0].space = uid("missing-space");
    m.loads.push(SpaceLoads { id: uid("l"), name: "l".into(), area_per_person: 1.0, people_schedule: Some(uid("missing-year")), people_sensible: 1.0, people_latent: 1.0, equipment: 1.0, equipment_schedule: None, lighting: 1.0, lighting_schedule: None, ..Default::default() });
    m.spaces[0].loads = Some(uid("l"));
    m
}

pub const N_OPS: usize = 11;
const OP_NAMES: [&str; N_OPS] = ["convert(cubo)", "convert(e4h_medianeras)", "convert(generated)", "indicators(cubo.json, D3)", "indicators(ejemploviv_unif.json)", "indicators(box, B3)", "indicators(box with shaded window, A3c)", "indicators(broken model, E1)", "collect_hulc_data(cubo, extra)", "convert(cubo with three shades without a name and a thermal bridge with a name of the user's)", "convert(generated, same names with other contents)"];

/// cubo with three vertex-defined shades whose name is the empty string (legal BDL; whatever the converter calls
/// them must not depend on what else the process is doing)
fn unnamed_shades_text() -> String {
    let text = corpus::read_utf8(&format!("{}/cubo/cubo.ctehexml", corpus::tests_dir()));
    let mut extra = String::new();
    for k in 0..3 {
        let x = 12.0 + 3.0 * k as f32;
        extra += &format!("\"\" = BUILDING-SHADE\n    TRAN = 0\n    REFL = 0.7\n    V1 =( {x}, -5, 0 )\n    V2 =( {}, -5, 0 )\n    V3 =( {}, -5, {} )\n    V4 =( {x}, -5, {} )\n    ..\n", x + 2.0, x + 2.0, 3 + k, 3 + k);
    }
    // and one thermal bridge carries a name of the user's instead of one of the thirteen standard ones
    let text = text.replacen("\"PILAR\" = THERMAL-BRIDGE", "\"Encuentro a medida\" = THERMAL-BRIDGE", 1);
    insert_before_end(&text, false, &extra)
}

/// run one operation, return the hash of its observation (model JSON bytes / indicators as JSON value text)
pub fn run_op(op: usize) -> u64 {
    let tests = corpus::tests_dir();
    let data = format!("{}/bemodel/tests/data", repo_dir());
    let ind_hash = |m: &Model| -> u64 {
        let ind = m.energy_indicators();
        // HashMap-ordered detail: compare as a JSON value (keys sorted by serde_json's BTreeMap)
        let v: Value = serde_json::to_value(&ind).unwrap();
        hash64(&v.to_string())
    };
    match op {
        0 => match corpus::convert_text(&corpus::read_utf8(&format!("{}/cubo/cubo.ctehexml", tests)), false) {
            Outcome::Ok(m) => hash64(&m.as_json().unwrap()),
            _ => 1,
        },
        1 => match corpus::convert_text(&corpus::read_utf8(&format!("{}/e4h_medianeras/e4h_medianeras.ctehexml", tests)), false) {
            Outcome::Ok(m) => hash64(&m.as_json().unwrap()),
            _ => 1,
        },
        2 => match corpus::convert_text(&projgen::ctehexml_text(&spec0()), false) {
            Outcome::Ok(m) => hash64(&m.as_json().unwrap()),
            _ => 1,
        },
        3 => ind_hash(&load_model(&format!("{}/cubo.json", data))),
        4 => ind_hash(&load_model(&format!("{}/ejemploviv_unif.json", data))),
        5 => ind_hash(&simple_box(zone("B3"))),
        6 => ind_hash(&model_canary()),
        7 => ind_hash(&model_failing()),
        8 => match hulc2model::collect_hulc_data(format!("{}/cubo", tests), true, true) {
            Ok(m) => hash64(&m.as_json().unwrap()),
            Err(_) => 1,
        },
        9 => match corpus::convert_text(&unnamed_shades_text(), false) {
            Outcome::Ok(m) => hash64(&m.as_json().unwrap()),
            _ => 1,
        },
        _ => match corpus::convert_text(&same_names_other_contents_text(), false) {
            Outcome::Ok(m) => hash64(&m.as_json().unwrap()),
            _ => 1,
        },
    }
}

/// the generated project of operation 2 with every name kept and the contents behind the names changed: another
/// outline and storey height (same polygon, space and wall names), another conductivity and thickness for the
/// project's own material and layers, another glazing conductance wherever one is written
fn same_names_other_contents_text() -> String {
    let mut sp = spec0();
    sp.outline = 0;
    sp.height = 3.1;
    sp.global_dev = 90.0;
    let t = projgen::ctehexml_text(&sp);
    let t = t.replacen("CONDUCTIVITY = 0.5\n    DENSITY = 1000", "CONDUCTIVITY = 0.25\n    DENSITY = 1400", 1);
    t.replacen("THICKNESS = ( 0.24)", "THICKNESS = ( 0.115)", 1)
}

fn decode_history(mut idx: u64) -> Vec<usize> {
    // idx: len-1 histories first (N_OPS), then len-2 (N_OPS^2), then len-3 over the 6-op core
    let n = N_OPS as u64;
    if idx < n {
        return vec![idx as usize];
    }
    idx -= n;
    if idx < n * n {
        return vec![(idx / n) as usize, (idx % n) as usize];
    }
    idx -= n * n;
    let core = [0usize, 2, 3, 5, 7, 8];
    vec![core[(idx / 36) as usize % 6], core[(idx / 6) as usize % 6], core[(idx % 6) as usize]]
}

/// worker: one history per fresh process
pub fn worker(_space: &str, idx: u64) -> Value {
    let h = decode_history(idx);
    let mut last = 0;
    let mut reps = vec![];
    for op in &h {
        match catch(std::panic::AssertUnwindSafe(|| run_op(*op))) {
            Ok(x) => last = x,
            Err(p) => return json!({"verdict": "panic", "panic": p, "exit_after": true}),
        }
    }
    // in-process repeat x3 of the last operation
    for _ in 0..2 {
        reps.push(catch(std::panic::AssertUnwindSafe(|| run_op(*h.last().unwrap()))).unwrap_or(2));
    }
    json!({"verdict": "ok", "last": last.to_string(), "repeats_equal": reps.iter().all(|r| *r == last), "exit_after": true})
}

// ---------------------------------------------------------------- id locality

fn ids_of(m: &Model) -> BTreeMap<String, Uuid> {
    let mut v = BTreeMap::new();
    for s in &m.spaces {
        v.insert(format!("space:{}", s.name), s.id);
    }
    for s in &m.walls {
        v.insert(format!("wall:{}", s.name), s.id);
    }
    for s in &m.windows {
        v.insert(format!("window:{}", s.name), s.id);
    }
    for s in &m.shades {
        v.insert(format!("shade:{}", s.name), s.id);
    }
    for s in &m.thermal_bridges {
        v.insert(format!("tb:{}", s.name), s.id);
    }
    for s in &m.cons.wallcons {
        v.insert(format!("wallcons:{}", s.name), s.id);
    }
    for s in &m.cons.wincons {
        v.insert(format!("wincons:{}", s.name), s.id);
    }
    for s in &m.cons.materials {
        v.insert(format!("material:{}", s.name), s.id);
    }
    for s in &m.cons.glasses {
        v.insert(format!("glass:{}", s.name), s.id);
    }
    for s in &m.cons.frames {
        v.insert(format!("frame:{}", s.name), s.id);
    }
    for s in &m.loads {
        v.insert(format!("loads:{}", s.name), s.id);
    }
    for s in &m.thermostats {
        v.insert(format!("thermostat:{}", s.name), s.id);
    }
    for s in &m.schedules.year {
        v.insert(format!("year:{}", s.name), s.id);
    }
    for s in &m.schedules.week {
        v.insert(format!("week:{}", s.name), s.id);
    }
    for s in &m.schedules.day {
        v.insert(format!("day:{}", s.name), s.id);
    }
    v
}

const EXTRA_DEFS: [(&str, &str); 13] = [
    ("MATERIAL", "\"ZZ Mat\" = MATERIAL\n TYPE = PROPERTIES\n CONDUCTIVITY = 0.5\n DENSITY = 1000\n SPECIFIC-HEAT = 1000\n ..\n"),
    ("LAYERS", "\"ZZ Capas\" = LAYERS\n MATERIAL = (\"ZZ Mat\")\n THICKNESS = ( 0.1)\n ..\n\"ZZ Mat\" = MATERIAL\n TYPE = PROPERTIES\n CONDUCTIVITY = 0.5\n DENSITY = 1000\n ..\n"),
    ("GLASS-TYPE", "\"ZZ Vidrio\" = GLASS-TYPE\n TYPE = SHADING-COEF\n SHADING-COEF = 0.5\n GLASS-CONDUCTANCE = 2.0\n ..\n"),
    ("NAME-FRAME", "\"ZZ Marco\" = NAME-FRAME\n GROUP = \"Marcos\"\n FRAME-WIDTH = 0.1\n FRAME-CONDUCT = 2.2\n FRAME-ABS = 0.5\n ..\n"),
    ("GAP", "\"ZZ Hueco\" = GAP\n GROUP-GLASS = \"Vidrios\"\n GLASS-TYPE = \"Doble\"\n GROUP-FRAME = \"Marcos\"\n NAME-FRAME = \"Mrpt - Gris claro\"\n PORCENTAGE = 20\n INF-COEF = 9\n ..\n"),
    ("POLYGON", "\"ZZ_Pol\" = POLYGON\n V1 =( 0, 0 )\n V2 =( 1, 0 )\n V3 =( 1, 1 )\n ..\n"),
    ("DAY-SCHEDULE-PD", "\"ZZ Dia\" = DAY-SCHEDULE-PD\n TYPE = FRACTION\n VALUES = ( 0.5)\n ..\n"),
    ("WEEK-SCHEDULE-PD", "\"ZZ Dia\" = DAY-SCHEDULE-PD\n TYPE = FRACTION\n VALUES = ( 0.5)\n ..\n\"ZZ Semana\" = WEEK-SCHEDULE-PD\n TYPE = FRACTION\n DAY-SCHEDULES = ( \"ZZ Dia\")\n ..\n"),
    ("SCHEDULE-PD", "\"ZZ Dia\" = DAY-SCHEDULE-PD\n TYPE = FRACTION\n VALUES = ( 0.5)\n ..\n\"ZZ Semana\" = WEEK-SCHEDULE-PD\n TYPE = FRACTION\n DAY-SCHEDULES = ( \"ZZ Dia\")\n ..\n\"ZZ Anual\" = SCHEDULE-PD\n TYPE = FRACTION\n MONTH = ( 12)\n DAY = ( 31)\n WEEK-SCHEDULES = ( \"ZZ Semana\")\n ..\n"),
    ("BUILDING-SHADE", "\"ZZ Sombra\" = BUILDING-SHADE\n TRAN = 0\n REFL = 0.7\n X = 50\n Y = 50\n Z = 0\n HEIGHT = 2\n WIDTH = 2\n AZIMUTH = 0\n TILT = 90\n ..\n"),
    ("THERMAL-BRIDGE", "\"ZZ_PT\" = THERMAL-BRIDGE\n LONG-TOTAL = 3.5\n TTL = 0.5\n FRSI = 0.5\n ..\n"),
    ("FLOOR+SPACE+WALL", "\"ZZ_Pol\" = POLYGON\n V1 =( 0, 0 )\n V2 =( 4, 0 )\n V3 =( 4, 4 )\n V4 =( 0, 4 )\n ..\n\"ZZP\" = FLOOR\n Z = 30\n SPACE-HEIGHT = 3\n PREVIOUS = \"Ninguna\"\n ..\n\"ZZP_E01\" = SPACE\n SHAPE = POLYGON\n POLYGON = \"ZZ_Pol\"\n X = 40\n TYPE = CONDITIONED\n SPACE-TYPE = \"Residencial\"\n MULTIPLIER = 1\n MULTIPLIED = 0\n POWER = 4.4\n VEEI-OBJ = 7\n VEEI-REF = 10\n ..\n\"ZZP_E01_PE001\" = EXTERIOR-WALL\n CONSTRUCTION = \"Fachada por defecto D0.60\"\n LOCATION = SPACE-V1\n ..\n"),
    ("WINDOW-LAST-WALL", ""), // placeholder: a window is appended to the last wall of the project (kept empty for real files)
];

fn insert_before_end(text: &str, is_cte: bool, extra: &str) -> String {
    if is_cte {
        format!("{}\n{}", text, extra)
    } else {
        match text.find("]]></EntradaGraficaLIDER>").or_else(|| text.find("</EntradaGraficaLIDER>")) {
            Some(p) => format!("{}\n{}\n{}", &text[..p], extra, &text[p..]),
            None => text.to_string(),
        }
    }
}

/// one modified project text and what is demanded of it
struct Variant {
    text: String,
    case: Value,
    /// violation key suffix when a pre-existing id changes
    id_key: String,
    what: String,
    /// Some(block type): the text holds a definition twice - two conversions must give the same bytes
    duplicate_of: Option<String>,
    check_ids: bool,
}

/// (type, byte range) of every block `"name" = TYPE ... ..` of a BDL text
fn blocks_of(text: &str) -> Vec<(String, usize, usize)> {
    let mut v = vec![];
    let mut pos = 0;
    let mut open: Option<(String, usize)> = None;
    for l in text.split_inclusive('\n') {
        let t = l.trim();
        if open.is_none() {
            if t.starts_with('"') {
                if let Some((_, ty)) = t.rsplit_once('=') {
                    let ty = ty.trim();
                    if !ty.is_empty() && ty.chars().all(|c| c.is_ascii_uppercase() || c == '-') {
                        open = Some((ty.to_string(), pos));
                    }
                }
            }
        } else if t == ".." {
            let (ty, start) = open.take().unwrap();
            v.push((ty, start, pos + l.len()));
        }
        pos += l.len();
    }
    v
}

/// (1) every unrelated definition appended at the end and inserted before the first FLOOR block
fn variants_added(name: &str, text: &str, is_cte: bool) -> Vec<Variant> {
    let mut v = vec![];
    for (kind, extra) in EXTRA_DEFS.iter() {
        if extra.is_empty() {
            continue;
        }
        for place in 0..2 {
            let t1 = if place == 0 {
                insert_before_end(text, is_cte, extra)
            } else {
                match insert_before_first_floor(text, extra) {
                    Some(t) => t,
                    None => continue,
                }
            };
            v.push(Variant { text: t1, case: json!({"part": "id-locality", "file": name, "added": kind, "place": place}), id_key: format!("changes-when-adding-{}", kind), what: format!("after appending an unrelated {} definition", kind), duplicate_of: None, check_ids: true });
        }
    }
    v
}

/// (1b) an unrelated definition built on top of an existing one: a coloured CONSTRUCTION over the first LAYERS of the
/// document (nothing uses it; the composition it refers to keeps its identity)
fn variants_built_on_existing(name: &str, text: &str, is_cte: bool) -> Vec<Variant> {
    let mut v = vec![];
    for (ty, a, _) in blocks_of(text) {
        if ty != "LAYERS" {
            continue;
        }
        let header = text[a..].lines().next().unwrap_or("");
        let Some(lname) = header.trim().strip_prefix('"').and_then(|r| r.split('"').next()) else { continue };
        for abs in ["0.9", "0.3"] {
            let extra = format!("\"ZZ {} {}\" = CONSTRUCTION\n    TYPE = LAYERS\n    LAYERS = \"{}\"\n    ABSORPTANCE = {}\n    ..\n", lname, abs, lname, abs);
            v.push(Variant { text: insert_before_end(text, is_cte, &extra), case: json!({"part": "id-locality", "file": name, "added": "CONSTRUCTION over an existing LAYERS", "layers": lname, "absorptance": abs}), id_key: "changes-when-adding-CONSTRUCTION-over-existing-LAYERS".into(), what: format!("after appending an unused CONSTRUCTION (absorptance {}) over the existing LAYERS {:?}", abs, lname), duplicate_of: None, check_ids: true });
        }
        if v.len() >= 4 {
            break; // the first two compositions of the document
        }
    }
    v
}

/// (2) the first block of every type written twice (straight after itself, or again at the end of the document): the
/// same definition given twice is still one definition
fn variants_duplicated(name: &str, text: &str, is_cte: bool, places: usize) -> Vec<Variant> {
    let mut seen = std::collections::BTreeSet::new();
    let mut v = vec![];
    for (ty, a, b) in blocks_of(text) {
        if !seen.insert(ty.clone()) {
            continue;
        }
        let block = &text[a..b];
        for place in 0..places {
            let t1 = if place == 0 { format!("{}{}{}", &text[..b], block, &text[b..]) } else { insert_before_end(text, is_cte, block) };
            v.push(Variant { text: t1, case: json!({"part": "duplicated-definition", "file": name, "block_type": ty, "place": if place == 0 { "after itself" } else { "at the end" }, "block": block}), id_key: format!("changes-when-duplicating-{}", ty), what: format!("when a {} block is written twice", ty), duplicate_of: Some(ty.clone()), check_ids: place == 0 });
        }
    }
    v
}

/// (3) an unrelated definition that borrows the name of an existing definition of another kind (every kind of object
/// has its own namespace in HULC)
fn variants_borrowed_names(name: &str, text: &str, is_cte: bool) -> Vec<Variant> {
    let families: [&[&str]; 2] = [&["DAY-SCHEDULE-PD", "WEEK-SCHEDULE-PD", "SCHEDULE-PD"], &["MATERIAL", "LAYERS", "GLASS-TYPE", "NAME-FRAME", "GAP"]];
    let mut first_of: BTreeMap<String, String> = BTreeMap::new();
    for (ty, a, _) in blocks_of(text) {
        let header = text[a..].lines().next().unwrap_or("");
        if let Some(n) = header.trim().strip_prefix('"').and_then(|r| r.split('"').next()) {
            first_of.entry(ty).or_insert(n.to_string());
        }
    }
    let mut v = vec![];
    for fam in families {
        for existing in fam.iter() {
            let Some(ename) = first_of.get(*existing) else { continue };
            for (kind, extra) in EXTRA_DEFS.iter().filter(|(k, _)| fam.contains(k) && k != existing) {
                // the main block of the extra text is the one of type `kind`: give it the borrowed name
                let Some((_, a, b)) = blocks_of(extra).into_iter().find(|(ty, _, _)| ty == kind) else { continue };
                let block = &extra[a..b];
                let Some(rest) = block.find("\" =") else { continue };
                let renamed = format!("{}\"{}{}{}", &extra[..a], ename, &block[rest..], &extra[b..]);
                v.push(Variant { text: insert_before_end(text, is_cte, &renamed), case: json!({"part": "id-locality", "file": name, "added": kind, "named_like_the_existing": existing, "name": ename}), id_key: format!("changes-when-adding-{}-named-like-a-{}", kind, existing), what: format!("after appending an unrelated {} that has the name of the {} {:?}", kind, existing, ename), duplicate_of: None, check_ids: true });
            }
        }
    }
    v
}

/// converts every variant (in parallel) and applies its oracle
fn run_variants(ctx: &Ctx, name: &str, text: &str, is_cte: bool, variants: Vec<Variant>) -> u64 {
    let Outcome::Ok(m0) = corpus::convert_text(text, is_cte) else { return 0 };
    let ids0 = ids_of(&m0);
    par_for(variants.len() as u64, |i| {
        let v = &variants[i as usize];
        let r1 = corpus::convert_text(&v.text, is_cte);
        if let Some(ty) = &v.duplicate_of {
            let r2 = std::thread::scope(|s| s.spawn(|| corpus::convert_text(&v.text, is_cte)).join()).unwrap_or(Outcome::Panic("thread".into()));
            match (&r1, &r2) {
                (Outcome::Ok(m1), Outcome::Ok(m2)) => {
                    if m1.as_json().unwrap_or_default() != m2.as_json().unwrap_or_default() {
                        ctx.violation(&format!("repeat-differs:duplicated-{}", ty), &format!("{}: two conversions of the same document (a {} block written twice) give different JSON", name, ty), v.case.clone());
                        return;
                    }
                }
                (Outcome::Err(_), Outcome::Err(_)) => {}
                (Outcome::Panic(_), _) => {}
                (_, Outcome::Panic(p)) => ctx.violation(&format!("panic:{}", panic_key(p)), p, v.case.clone()),
                _ => ctx.violation(&format!("repeat-differs:duplicated-{}:ok-vs-error", ty), &format!("{}: one conversion succeeds and the other fails", name), v.case.clone()),
            }
        }
        match r1 {
            Outcome::Ok(m1) => {
                if v.check_ids {
                    let ids1 = ids_of(&m1);
                    for (k, id) in &ids0 {
                        match ids1.get(k) {
                            Some(id1) if id1 == id => {}
                            other => {
                                let coll = k.split(':').next().unwrap_or("");
                                ctx.violation(&format!("id-locality:{}-{}", coll, v.id_key), &format!("{}: id of {} changes from {} to {:?} {}", name, k, id, other, v.what), v.case.clone());
                                break;
                            }
                        }
                    }
                }
            }
            Outcome::Err(_) => {} // e.g. legacy file without the referenced catalogue names: not an id question
            Outcome::Panic(p) => ctx.violation(&format!("panic:{}", panic_key(&p)), &p, v.case.clone()),
        }
    });
    variants.len() as u64
}

fn insert_before_first_floor(text: &str, extra: &str) -> Option<String> {
    // position of the line that opens the first FLOOR block
    let mut pos = 0;
    for l in text.split_inclusive('\n') {
        let t = l.trim();
        if t.ends_with("= FLOOR") && t.starts_with('"') {
            return Some(format!("{}{}\n{}", &text[..pos], extra, &text[pos..]));
        }
        pos += l.len();
    }
    None
}

// ---------------------------------------------------------------- child process for E4

/// `cte-mc sched <threads> <ops-per-thread> <bound|inf> <cap>`: explores schedules, prints one JSON line
/// child process: every scheduled operation with each non-empty subset of the three tables busy at lookup time
fn busy_main() -> i32 {
    sched::install();
    let ops: [usize; 5] = [5, 6, 3, 7, 8];
    let refs: Vec<u64> = ops.iter().map(|o| run_op(*o)).collect();
    let mut runs = 0u64;
    let mut failures = vec![];
    for (k, op) in ops.iter().enumerate() {
        for mask in 1u8..8 {
            let before = sched::BUSY_LOOKUPS.load(std::sync::atomic::Ordering::Relaxed);
            let r = sched::with_busy_tables(mask, || std::panic::catch_unwind(|| run_op(*op)));
            let delayed = sched::BUSY_LOOKUPS.load(std::sync::atomic::Ordering::Relaxed) - before;
            runs += 1;
            let busy: Vec<&str> = (0..3).filter(|i| mask & (1 << i) != 0).map(|i| sched::TABLES[i]).collect();
            match r {
                Ok(h) if h == refs[k] => {}
                Ok(_) => failures.push(json!({"operation": OP_NAMES[*op], "busy": busy, "lookups_delayed": delayed, "what": "differs"})),
                Err(_) => failures.push(json!({"operation": OP_NAMES[*op], "busy": busy, "lookups_delayed": delayed, "what": "panicked"})),
            }
        }
    }
    println!("{}", json!({"runs": runs, "lookups_delayed": sched::BUSY_LOOKUPS.load(std::sync::atomic::Ordering::Relaxed), "failures": failures}));
    0
}

pub fn sched_main(args: &[String]) -> i32 {
    if args[0] == "busy" {
        return busy_main();
    }
    let nt: usize = args[0].parse().unwrap();
    let per: usize = args[1].parse().unwrap();
    let bound: usize = if args[2] == "inf" { usize::MAX } else { args[2].parse().unwrap() };
    let cap: u64 = args[3].parse().unwrap();
    // operations used under the scheduler (small, fast, different zones / tables)
    let sched_ops: [usize; 4] = [5, 6, 3, 8];
    // sequential references first (main thread: hook inert)
    sched::install();
    let refs: Vec<u64> = sched_ops.iter().map(|o| run_op(*o)).collect();
    let mut bodies: Vec<Vec<Arc<dyn Fn() -> u64 + Send + Sync>>> = vec![];
    let mut expect: Vec<Vec<u64>> = vec![];
    for t in 0..nt {
        let mut ops: Vec<Arc<dyn Fn() -> u64 + Send + Sync>> = vec![];
        let mut ex = vec![];
        for k in 0..per {
            let oi = (t + k * 2) % sched_ops.len();
            let op = sched_ops[oi];
            ops.push(Arc::new(move || run_op(op)));
            ex.push(refs[oi]);
        }
        bodies.push(ops);
        expect.push(ex);
    }
    // replay determinism: the same schedule twice gives identical points and observations
    let a = sched::run(&[], &bodies);
    let choices: Vec<usize> = a.points.iter().map(|p| p.chosen).collect();
    let b = sched::run(&choices, &bodies);
    if a.fatal.is_some() || b.fatal.is_some() || a.observations != b.observations || a.points.len() != b.points.len() {
        println!("{}", json!({"machinery_error": format!("replay of one schedule is not reproducible: {:?} / {:?}", a.fatal, b.fatal)}));
        return 4;
    }
    let check = |x: &sched::Execution| -> Option<String> {
        for (t, obs) in x.observations.iter().enumerate() {
            for (k, o) in obs.iter().enumerate() {
                if *o == u64::MAX {
                    return Some(format!("thread {} op {} panicked", t, k));
                }
                if *o != expect[t][k] {
                    return Some(format!("thread {} op {}: observation differs from the sequential reference", t, k));
                }
            }
        }
        None
    };
    let ex = sched::explore(&bodies, bound, &check, cap);
    let fatal = ex.failures.iter().any(|f| f.1.starts_with("DEADLOCK") || f.1.starts_with("WATCHDOG") || f.1.starts_with("REPLAY"));
    println!(
        "{}",
        json!({"threads": nt, "ops_per_thread": per, "bound": args[2], "executions": ex.executions, "distinct_schedules": ex.distinct_schedules.len(), "max_points": ex.max_points,
               "lock_points_per_indicator_op": 3, "failures": ex.failures.iter().take(5).map(|(c, m)| json!({"schedule": c, "what": m})).collect::<Vec<_>>(), "n_failures": ex.failures.len(),
               "sample_schedule": ex.distinct_schedules.iter().next()})
    );
    let _ = std::io::Write::flush(&mut std::io::stdout());
    if fatal {
        std::process::exit(3); // threads may be stuck on real locks
    }
    0
}

fn run_sched_child(ctx: &Ctx, nt: usize, per: usize, bound: &str, cap: u64) -> Option<Value> {
    let exe = std::env::current_exe().unwrap();
    let p = crate::c01::run_proc(exe.to_str().unwrap(), &["sched", &nt.to_string(), &per.to_string(), bound, &cap.to_string()], 600);
    let out = String::from_utf8_lossy(&p.stdout).to_string();
    let line = out.lines().rev().find(|l| l.starts_with('{')).unwrap_or("");
    let v: Value = serde_json::from_str(line).unwrap_or(Value::Null);
    let cfg = format!("{} threads x {} ops, preemption bound {}", nt, per, bound);
    if p.timed_out {
        ctx.violation("schedules:hang", &format!("schedule exploration ({}) did not finish: a thread is blocked outside the hooked lock sites", cfg), json!({"config": cfg}));
        return None;
    }
    if v.is_null() || v.get("machinery_error").is_some() {
        ctx.machinery_error(format!("scheduler child failed ({}): exit {:?} {}", cfg, p.code, out.chars().take(300).collect::<String>()));
        return None;
    }
    for f in v["failures"].as_array().cloned().unwrap_or_default() {
        let what = f["what"].as_str().unwrap_or("");
        if what == "CAP" {
            ctx.note("schedule_cap_hit", json!(cfg));
            continue;
        }
        let key = if what.starts_with("DEADLOCK") { "schedules:deadlock".to_string() } else if what.starts_with("WATCHDOG") { "schedules:blocked-on-unhooked-primitive".to_string() } else if what.contains("panicked") { "schedules:panic-under-interleaving".to_string() } else { "schedules:result-depends-on-interleaving".to_string() };
        ctx.violation(&key, &format!("{}: {} (schedule {})", cfg, what, f["schedule"]), json!({"config": cfg, "schedule": f["schedule"], "what": what, "replay": format!("cte-mc sched {} {} {} 1  # with the prefix", nt, per, bound)}));
    }
    Some(v)
}

/// first path at which two JSON values differ
fn first_diff(a: &Value, b: &Value) -> Option<String> {
    fn rec(a: &Value, b: &Value, path: &str) -> Option<String> {
        match (a, b) {
            (Value::Object(x), Value::Object(y)) => {
                for (k, v) in x {
                    match y.get(k) {
                        Some(w) => {
                            if let Some(d) = rec(v, w, &format!("{}.{}", path, k)) {
                                return Some(d);
                            }
                        }
                        None => return Some(format!("{}.{} missing", path, k)),
                    }
                }
                y.keys().find(|k| !x.contains_key(*k)).map(|k| format!("{}.{} extra", path, k))
            }
            (Value::Array(x), Value::Array(y)) => {
                if x.len() != y.len() {
                    return Some(format!("{} length {} vs {}", path, x.len(), y.len()));
                }
                x.iter().zip(y.iter()).enumerate().find_map(|(i, (v, w))| rec(v, w, &format!("{}[{}]", path, i)))
            }
            _ => {
                if a == b {
                    None
                } else {
                    Some(format!("{} {} vs {}", path.trim_start_matches('.'), a, b))
                }
            }
        }
    }
    rec(a, b, "")
}

// ---------------------------------------------------------------- main

pub fn run(ctx: &Ctx) -> i32 {
    let mut states = 0u64;
    let mut transitions = 0u64;
    let t_sec = std::time::Instant::now();
    // ---- 1. histories, each in a fresh process
    let nh: u64 = (N_OPS + N_OPS * N_OPS) as u64 + ctx.tier.pick(36, 216);
    let idxs: Vec<u64> = (0..nh).map(|i| if ctx.tier == Tier::Quick && i >= (N_OPS + N_OPS * N_OPS) as u64 { (N_OPS + N_OPS * N_OPS) as u64 + (i - (N_OPS + N_OPS * N_OPS) as u64) * 6 + 1 } else { i }).collect();
    let results: Mutex<BTreeMap<u64, Value>> = Mutex::new(BTreeMap::new());
    sup::supervise("c05hist", &idxs, std::time::Duration::from_secs(120), &|idx, v| {
        results.lock().unwrap().insert(idx, v);
        true
    });
    let results = results.into_inner().unwrap();
    let single: Vec<Option<String>> = (0..N_OPS as u64).map(|o| results.get(&o).and_then(|v| v["last"].as_str().map(|s| s.to_string()))).collect();
    for (idx, v) in &results {
        let h = decode_history(*idx);
        ctx.eval(1);
        transitions += h.len() as u64;
        let case = || json!({"part": "history", "operations": h.iter().map(|o| OP_NAMES[*o]).collect::<Vec<_>>()});
        match v["verdict"].as_str() {
            Some("ok") => {
                states += 1;
                let last = *h.last().unwrap();
                if Some(v["last"].as_str().unwrap_or("").to_string()) != single[last] {
                    ctx.violation(&format!("history-dependent:{}", OP_NAMES[last].split('(').next().unwrap()), &format!("{} gives a different result after {:?} than in a fresh process", OP_NAMES[last], h[..h.len() - 1].iter().map(|o| OP_NAMES[*o]).collect::<Vec<_>>()), case());
                }
                if v["repeats_equal"].as_bool() != Some(true) {
                    ctx.violation(&format!("repeat-differs:{}", OP_NAMES[last].split('(').next().unwrap()), &format!("{} repeated in the same process gives different results", OP_NAMES[last]), case());
                }
                if h.len() > 1 {
                    ctx.nontriv(1);
                }
                ctx.outcome(&v["last"].as_str().unwrap_or(""));
            }
            Some("panic") => ctx.violation(&format!("panic:{}", panic_key(v["panic"].as_str().unwrap_or(""))), &format!("history {:?} panics: {}", h, v["panic"]), case()),
            other => ctx.violation(&format!("history:{:?}", other), &format!("history {:?}: {:?}", h, v), case()),
        }
    }
    // 8 fresh processes per conversion op: byte-identical (the single-op history run 8 times)
    let fresh_ops: Vec<u64> = vec![0, 1, 2, 8];
    for op in &fresh_ops {
        let rep: Mutex<HashSet<String>> = Mutex::new(HashSet::new());
        let idx8: Vec<u64> = vec![*op; 8];
        sup::supervise("c05hist", &idx8, std::time::Duration::from_secs(120), &|_, v| {
            rep.lock().unwrap().insert(v["last"].as_str().unwrap_or("?").to_string());
            true
        });
        ctx.eval(8);
        transitions += 8;
        if rep.lock().unwrap().len() != 1 {
            ctx.violation(&format!("fresh-process-differs:{}", OP_NAMES[*op as usize]), &format!("{} gives {} different results in 8 fresh processes (hash-map order leaking into the output?)", OP_NAMES[*op as usize], rep.lock().unwrap().len()), json!({"part": "fresh-process", "operation": OP_NAMES[*op as usize]}));
        }
    }
    ctx.sample(json!({"part": "history", "operations": decode_history(N_OPS as u64 + 37).iter().map(|o| OP_NAMES[*o]).collect::<Vec<_>>()}));
    ctx.note("seconds_until_section_2", json!(t_sec.elapsed().as_secs_f64()));
    // ---- 2. id locality
    let mut loc_n = 0;
    let mut files: Vec<(String, bool)> = corpus::project_dirs().iter().filter_map(|d| corpus::ctehexml_path(d)).map(|p| (p, false)).collect();
    files.extend(corpus::cte_files().into_iter().map(|p| (p, true)));
    if ctx.tier == Tier::Quick {
        files = files.into_iter().enumerate().filter(|(i, _)| i % 9 == 0).map(|(_, f)| f).collect();
    }
    {
        // borrowed names on the smallest real projects only in quick (all of them in thorough)
        let mut sized: Vec<&(String, bool)> = files.iter().collect();
        sized.sort_by_key(|(p, _)| std::fs::metadata(p).map(|m| m.len()).unwrap_or(0));
        let borrow: std::collections::BTreeSet<String> = sized.into_iter().take(ctx.tier.pick(3, usize::MAX)).map(|(p, _)| p.clone()).collect();
        for (p, is_cte) in &files {
            let text = if *is_cte { corpus::read_latin1(p) } else { corpus::read_utf8(p) };
            let name = p.rsplit('/').next().unwrap();
            let mut vs = variants_added(name, &text, *is_cte);
            vs.extend(variants_built_on_existing(name, &text, *is_cte));
            vs.extend(variants_duplicated(name, &text, *is_cte, ctx.tier.pick(1, 2)));
            if borrow.contains(p) {
                vs.extend(variants_borrowed_names(name, &text, *is_cte));
            }
            loc_n += run_variants(ctx, name, &text, *is_cte, vs);
        }
    }
    for s in projgen::all_specs(Tier::Quick).iter().step_by(ctx.tier.pick(97, 11)) {
        let (name, text) = (format!("generated {:?}", s), projgen::ctehexml_text(s));
        let mut vs = variants_added(&name, &text, false);
        vs.extend(variants_built_on_existing(&name, &text, false));
        vs.extend(variants_duplicated(&name, &text, false, 2));
        vs.extend(variants_borrowed_names(&name, &text, false));
        loc_n += run_variants(ctx, &name, &text, false, vs);
    }
    ctx.eval(loc_n);
    ctx.nontriv(loc_n);
    transitions += loc_n;
    ctx.sample(json!({"part": "id-locality", "file": "cubo.ctehexml", "added": "SCHEDULE-PD (+ its week and day)", "oracle": "every pre-existing (collection, name) keeps its id"}));
    ctx.note("seconds_until_section_3", json!(t_sec.elapsed().as_secs_f64()));
    // ---- 3. schedules
    let mut sched_notes = vec![];
    let configs: Vec<(usize, usize, &str, u64)> = match ctx.tier {
        Tier::Quick => vec![(2, 1, "inf", 5000), (3, 1, "0", 5000), (3, 1, "1", 5000), (2, 2, "1", 5000)],
        Tier::Thorough => vec![(2, 1, "inf", 100000), (2, 2, "inf", 100000), (3, 1, "inf", 100000), (3, 2, "0", 100000), (3, 2, "1", 100000), (3, 2, "2", 100000), (4, 1, "2", 100000), (2, 3, "2", 100000)],
    };
    for (nt, per, bound, cap) in configs {
        if let Some(v) = run_sched_child(ctx, nt, per, bound, cap) {
            let ex = v["executions"].as_u64().unwrap_or(0);
            ctx.eval(ex);
            ctx.nontriv(v["distinct_schedules"].as_u64().unwrap_or(0));
            states += v["distinct_schedules"].as_u64().unwrap_or(0);
            transitions += ex * v["max_points"].as_u64().unwrap_or(0);
            sched_notes.push(v);
        }
    }
    // the environment answer "table busy": each operation x each non-empty subset of the three tables held by a foreign
    // client of the public statics at the moment of every lookup (the code under test must wait, not guess)
    {
        let exe = std::env::current_exe().unwrap();
        let p = crate::c01::run_proc(exe.to_str().unwrap(), &["sched", "busy"], 300);
        let out = String::from_utf8_lossy(&p.stdout).to_string();
        let v: Value = serde_json::from_str(out.lines().rev().find(|l| l.starts_with('{')).unwrap_or("")).unwrap_or(Value::Null);
        if p.timed_out {
            ctx.violation("tables:hang-while-a-table-is-busy", "an operation did not finish while another client held one of the climate tables for 25 ms at a time", json!({"part": "busy-tables"}));
        } else if v.is_null() {
            ctx.machinery_error(format!("busy-table child failed: exit {:?} {}", p.code, out.chars().take(300).collect::<String>()));
        } else {
            let runs = v["runs"].as_u64().unwrap_or(0);
            ctx.eval(runs);
            ctx.nontriv(v["lookups_delayed"].as_u64().unwrap_or(0).min(runs));
            transitions += v["lookups_delayed"].as_u64().unwrap_or(0);
            for f in v["failures"].as_array().cloned().unwrap_or_default() {
                let what = if f["what"] == "panicked" { "panic" } else { "result-differs" };
                ctx.violation(&format!("tables:{}-when-a-table-is-busy", what), &format!("{} with {} in use by another client at lookup time: {} (sequential result otherwise)", f["operation"], f["busy"], f["what"]), json!({"part": "busy-tables", "case": f}));
            }
            ctx.note("busy_tables", v);
        }
    }
    ctx.sample(json!({"part": "schedule", "config": "2 threads x 1 op", "example": sched_notes.first().map(|v| v["sample_schedule"].clone())}));
    ctx.note("schedule_exploration", json!(sched_notes));
    // sampling complement (labelled so): the same bodies free-running on 16 OS threads
    {
        let fr_ops = [5usize, 6, 3, 0, 2, 8];
        let refs: Vec<u64> = fr_ops.iter().map(|o| run_op(*o)).collect();
        let bad = std::sync::atomic::AtomicU64::new(0);
        let rounds = ctx.tier.pick(3, 20);
        for _ in 0..rounds {
            std::thread::scope(|s| {
                for t in 0..16 {
                    let refs = &refs;
                    let bad = &bad;
                    s.spawn(move || {
                        let oi = t % fr_ops.len();
                        let r = catch(std::panic::AssertUnwindSafe(|| run_op(fr_ops[oi])));
                        if r.ok() != Some(refs[oi]) {
                            bad.fetch_add(1, std::sync::atomic::Ordering::Relaxed);
                        }
                    });
                }
            });
        }
        ctx.eval(rounds as u64 * 16);
        if bad.load(std::sync::atomic::Ordering::Relaxed) > 0 {
            ctx.violation("free-running-threads:result-differs", &format!("{} of {} concurrent computations differ from the sequential reference", bad.load(std::sync::atomic::Ordering::Relaxed), rounds * 16), json!({"part": "free-running (sampling)"}));
        }
        // conversions only: 16 threads leave a barrier together and convert the project with the unnamed shades 6 times
        // each (state shared through atomics has no hooked site and is invisible to the scheduler above)
        let text = unnamed_shades_text();
        let conv = |t: &str| match corpus::convert_text(t, false) {
            Outcome::Ok(m) => hash64(&m.as_json().unwrap()),
            _ => 1,
        };
        let reference = conv(&text);
        let bad2 = std::sync::atomic::AtomicU64::new(0);
        let barrier = std::sync::Barrier::new(16);
        let per = ctx.tier.pick(6, 40);
        std::thread::scope(|s| {
            for _ in 0..16 {
                s.spawn(|| {
                    barrier.wait();
                    for _ in 0..per {
                        if catch(std::panic::AssertUnwindSafe(|| conv(&text))).ok() != Some(reference) {
                            bad2.fetch_add(1, std::sync::atomic::Ordering::Relaxed);
                        }
                    }
                });
            }
        });
        ctx.eval(16 * per as u64);
        if reference == 1 {
            ctx.note("unnamed_shades_project", json!("not convertible on this tree: the concurrent-conversion complement is vacuous"));
        } else if bad2.load(std::sync::atomic::Ordering::Relaxed) > 0 {
            ctx.violation("free-running-threads:conversion-differs", &format!("{} of {} concurrent conversions of one project (three shades without a name) differ from the bytes of the conversion done alone", bad2.load(std::sync::atomic::Ordering::Relaxed), 16 * per), json!({"part": "free-running (sampling)"}));
        }
        ctx.note("free_running_sampling", json!({"rounds": rounds, "threads": 16, "concurrent_conversions_of_one_project": 16 * per, "labelled": "sampling complement, can only add violations"}));
    }
    ctx.note("seconds_until_section_4", json!(t_sec.elapsed().as_secs_f64()));
    // ---- 4. reference pairs
    let pairs = [("cubo/cubo.ctehexml", "cubo.json"), ("e4h_medianeras/e4h_medianeras.ctehexml", "e4h_medianeras.json"), ("casoA/casoa.ctehexml", "caso_a.json"), ("ejemploviv_unif/ejemploviv_unif.ctehexml", "ejemploviv_unif.json"), ("ejemplo_gt_aerotermia/ejemplo_gt_aerotermia.ctehexml", "ejemplo_gt_aerotermia.json"), ("cubo_gt_caldera_radiadores/cubo_gt_caldera_radiadores.ctehexml", "cubo_gt_caldera_radiadores.json")];
    for (proj, model) in pairs {
        ctx.eval(1);
        ctx.nontriv(1);
        transitions += 1;
        let conv = corpus::convert_text(&corpus::read_utf8(&format!("{}/{}", corpus::tests_dir(), proj)), false);
        let shipped = Model::from_json(&corpus::read_utf8(&format!("{}/bemodel/tests/data/{}", repo_dir(), model)));
        match (conv, shipped) {
            (Outcome::Ok(a), Ok(b)) => {
                let (ja, jb) = (a.as_json().unwrap(), b.as_json().unwrap());
                if ja != jb {
                    let (la, lb): (Vec<&str>, Vec<&str>) = (ja.lines().collect(), jb.lines().collect());
                    let pos = la.iter().zip(lb.iter()).position(|(x, y)| x != y).unwrap_or(0);
                    ctx.violation(&format!("reference-pair:{}", model), &format!("converting {} no longer gives the shipped {}: first difference at line {}: {:?} vs shipped {:?}", proj, model, pos + 1, la.get(pos), lb.get(pos)), json!({"part": "reference-pair", "project": proj, "model": model}));
                }
            }
            (c, s) => ctx.violation(&format!("reference-pair:{}:unreadable", model), &format!("conversion ok: {}, shipped model loads: {}", matches!(c, Outcome::Ok(_)), s.is_ok()), json!({"project": proj, "model": model})),
        }
    }
    // ---- 5. one model object computed, edited in place through its public fields (or purged, checked, cloned), and
    // computed again: the second result is the one of a model freshly loaded from the edited object's JSON
    {
        let bases: Vec<(String, Model)> = {
            let mut v = vec![("generated box".to_string(), model_canary())];
            for (n, m) in shipped_models().into_iter().filter(|(n, _)| n == "cubo.json" || n == "ejemploviv_unif.json") {
                v.push((n, m));
            }
            v
        };
        let edits: Vec<(&str, fn(&mut Model))> = vec![
            ("first window removed", |m| {
                if !m.windows.is_empty() {
                    m.windows.remove(0);
                }
            }),
            ("climate zone changed", |m| m.meta.climate = zone("A3c")),
            ("multiplier of the first space doubled", |m| {
                if let Some(s) = m.spaces.first_mut() {
                    s.multiplier *= 2.0;
                }
            }),
            ("a shade added", |m| m.shades.push(Shade { id: uid("c05-shade"), name: "c05-shade".into(), geometry: geom(90.0, 0.0, Some([-2.0, -1.0, 0.0]), rect(30.0, 12.0)), ..Default::default() })),
            ("first wall construction removed", |m| {
                if !m.cons.wallcons.is_empty() {
                    m.cons.wallcons.remove(0);
                }
            }),
            ("first wall removed", |m| {
                if !m.walls.is_empty() {
                    m.walls.remove(0);
                }
            }),
            ("blower-door value set, existing building", |m| {
                m.meta.n50_test_ach = Some(2.5);
                m.meta.is_new_building = !m.meta.is_new_building;
            }),
            ("every space 1 m higher", |m| {
                for s in m.spaces.iter_mut() {
                    s.height += 1.0;
                }
            }),
            // (edits that keep every count: an obstacle moved, a window resized, a wall turned)
            ("every shade lifted 1 km", |m| {
                for s in m.shades.iter_mut() {
                    if let Some(p) = s.geometry.position.as_mut() {
                        p.z += 1000.0;
                    }
                }
            }),
            ("first window half as wide, last wall turned by 90 degrees", |m| {
                if let Some(w) = m.windows.first_mut() {
                    w.geometry.width *= 0.5;
                }
                if let Some(w) = m.walls.last_mut() {
                    w.geometry.azimuth += 90.0;
                }
            }),
            ("purged", |m| {
                let _ = bemodel::purge_unused(m);
            }),
            ("checked, then the last space removed", |m| {
                let _ = bemodel::check(m);
                m.spaces.pop();
            }),
        ];
        let val = |m: &Model| serde_json::to_value(m.energy_indicators()).unwrap_or(Value::Null);
        for (bname, base) in &bases {
            for (what, f) in &edits {
                ctx.eval(1);
                ctx.nontriv(1);
                transitions += 1;
                let case = json!({"part": "in-place-edit", "model": bname, "history": ["indicators", what, "indicators"]});
                let r = catch(std::panic::AssertUnwindSafe(|| {
                    let mut m = base.clone();
                    let _ = val(&m);
                    f(&mut m);
                    let after = val(&m);
                    let c = m.clone();
                    let after_clone = val(&c);
                    let fresh = Model::from_json(&m.as_json().unwrap()).map(|q| val(&q)).unwrap_or(Value::Null);
                    (after, after_clone, fresh)
                }));
                match r {
                    Ok((after, after_clone, fresh)) => {
                        if after != fresh || after_clone != fresh {
                            let d = first_diff(&after, &fresh).or_else(|| first_diff(&after_clone, &fresh)).unwrap_or_default();
                            ctx.violation(&format!("history-dependent:in-place-edit:{}", d.split(|c: char| c == ' ' || c == '[').next().unwrap_or("")), &format!("{}: indicators, then '{}', then indicators on the same object differ from the indicators of the edited model loaded afresh: {}", bname, what, d), case);
                        }
                    }
                    Err(_) => {} // totality is C14's question
                }
            }
        }
    }
    // ---- 6. the fresh processes a user actually starts: the two command-line tools, twice each, the second time onto
    // an output path that already holds the (longer) export of another project - same bytes as the library every time
    match crate::c01::build_repo_bins() {
        Err(e) => ctx.machinery_error(format!("cannot build the repository binaries: {}", e)),
        Ok(()) => {
            let dirs = corpus::project_dirs();
            let mut pr: Vec<(String, String, usize)> = dirs.iter().filter_map(|d| corpus::ctehexml_path(d).map(|f| (d.clone(), f.clone(), std::fs::metadata(&f).map(|m| m.len() as usize).unwrap_or(0)))).collect();
            pr.sort_by_key(|x| x.2);
            let (small, big) = (pr[0].clone(), pr[pr.len() / 2].clone());
            let scratch = format!("{}/.cache/c05-tools", verif_dir());
            let _ = std::fs::remove_dir_all(&scratch);
            std::fs::create_dir_all(&scratch).unwrap();
            let lib = |f: &str| -> Option<String> { catch(std::panic::AssertUnwindSafe(|| hulc::ctehexml::parse_with_catalog_from_path(f).ok().and_then(|d| Model::try_from(&d).ok()).and_then(|m| m.as_json().ok()))).ok().flatten() };
            // (the export tool's library entry point adds the project's extra data: its own reference)
            let lib_dir = catch(std::panic::AssertUnwindSafe(|| hulc2model::collect_hulc_data(&small.0, false, false).ok().and_then(|m| m.as_json().ok()))).ok().flatten();
            if let (Some(js), Some(_jb), Some(jd)) = (lib(&small.1), lib(&big.1), lib_dir) {
                let mut outs: Vec<(String, String)> = vec![];
                for r in 0..2 {
                    let p = crate::c01::run_proc(&crate::c01::bin("hulc2model"), &[small.0.as_str()], 120);
                    outs.push((format!("hulc2model run {}", r + 1), String::from_utf8_lossy(&p.stdout).trim_end().to_string()));
                }
                let fresh = format!("{}/fresh.json", scratch);
                let reused = format!("{}/reused.json", scratch);
                let _ = crate::c01::run_proc(&crate::c01::bin("thor"), &[small.1.as_str(), "-o", fresh.as_str()], 120);
                let _ = crate::c01::run_proc(&crate::c01::bin("thor"), &[big.1.as_str(), "-o", reused.as_str()], 120);
                let _ = crate::c01::run_proc(&crate::c01::bin("thor"), &[small.1.as_str(), "-o", reused.as_str()], 120);
                outs.push(("thor -o onto a new path".into(), std::fs::read_to_string(&fresh).unwrap_or_default().trim_end().to_string()));
                outs.push(("thor -o onto the path of an earlier, larger export".into(), std::fs::read_to_string(&reused).unwrap_or_default().trim_end().to_string()));
                // the same tool on the same project leaves the same bytes whatever ran or lay there before, and those bytes
                // load as the library's model
                let as_model = |t: &str| Model::from_json(t).ok().and_then(|m| m.as_json().ok());
                for (i, j, want) in [(0usize, 1usize, &jd), (2, 3, &js)] {
                    ctx.eval(2);
                    ctx.nontriv(2);
                    transitions += 2;
                    let tool = outs[i].0.split(' ').next().unwrap_or("").to_string();
                    if outs[i].1 != outs[j].1 {
                        ctx.violation(&format!("fresh-process-differs:tool:{}", tool), &format!("{} ({} bytes) and {} ({} bytes) of {} differ", outs[i].0, outs[i].1.len(), outs[j].0, outs[j].1.len(), small.1.rsplit('/').next().unwrap_or("")), json!({"part": "tools", "project": small.1, "runs": [outs[i].0, outs[j].0]}));
                    } else if as_model(&outs[i].1).as_deref() != Some(want.as_str()) {
                        ctx.violation(&format!("fresh-process-differs:tool-vs-library:{}", tool), &format!("{} of {} does not load as the model the library exports", outs[i].0, small.1.rsplit('/').next().unwrap_or("")), json!({"part": "tools", "project": small.1, "run": outs[i].0}));
                    }
                }
            }
            let _ = std::fs::remove_dir_all(&scratch);
        }
    }
    ctx.finish(
        "model_checking",
        &format!("(1) histories: every sequence of 1 and 2 operations over 11 operations (5 conversions incl. a project with three shades without a name and a thermal bridge under a non-standard name, and the generated project with every name kept and other contents behind the names, 5 indicator computations incl. a model without windows and a broken model, 1 collect_hulc_data with extra files) and {} sequences of 3 over a 6-operation core, each run in a fresh worker process: the last operation's observation (model JSON bytes / indicators as JSON value) must equal its observation as the only operation of a fresh process, and repeat identically 3x in-process; 4 conversions x 8 fresh processes byte-identical; (2) id locality: for corpus and generated projects, appending each of 12 unrelated definitions (material, layers, glass, frame, gap, polygon, day/week/year schedule, shade, bridge, floor+space+wall; an unused coloured CONSTRUCTION over an existing LAYERS) keeps every pre-existing element id - also when the added definition borrows the name of an existing definition of another kind of the same family (day/week/year schedules; material/layers/glazing/frame/gap) -, and writing the first block of every type twice (straight after itself / again at the end) gives the same bytes on every conversion, on another thread too, and keeps the ids; (3) schedules: controlled scheduler over the three hooked lock sites, real threads, DFS with preemption bounds as listed in schedule_exploration (deadlock / panic / result-vs-sequential-reference per execution, replay determinism checked first), + a free-running 16-thread sampling complement; (4) the 6 shipped (project, reference model) pairs compared through today's serialiser; (5) 3 models x 10 in-place histories (indicators, then an edit through the public fields / purge / check, then indicators on the same object and on its clone) against the edited model loaded afresh from its JSON; (6) the smallest project through hulc2model (twice) and thor -o (onto a new path and onto the path of an earlier, larger export): the library's bytes every time", ctx.tier.pick(36, 216)),
        true,
        json!({"states": states.max(1), "transitions": transitions.max(1), "traces_validated_against_impl": transitions}),
    )
}
