//! C18 — HULC file parsers recover every written value (E1: printer x full product of layout switches)

use crate::bdl::*;
use crate::common::*;
use crate::corpus;
use hulc::bdl::{build_blocks, BdlBlock, Data};
use serde_json::json;
use std::collections::HashSet;

fn blk(name: &str, btype: &str, attrs: Vec<(&str, AVal)>) -> ABlock {
    ABlock { name: name.into(), btype: btype.into(), attrs: attrs.into_iter().map(|(k, v)| (k.to_string(), v)).collect() }
}
fn s(x: &str) -> AVal {
    AVal::Str(x.into())
}
fn w(x: &str) -> AVal {
    AVal::Word(x.into())
}
fn n(x: f32) -> AVal {
    AVal::Num(x)
}

/// composite project document; variant 0 = all attributes, 1 = mandatory only, 2 = legacy LIDER style
fn project_doc(variant: usize) -> Vec<ABlock> {
    let full = variant == 0;
    let legacy = variant == 2;
    let mut d = vec![];
    // --- db
    let mut mat = vec![("TYPE", w("PROPERTIES")), ("CONDUCTIVITY", n(0.5)), ("DENSITY", n(1200.0))];
    if full {
        mat.push(("THICKNESS", n(0.125)));
        mat.push(("SPECIFIC-HEAT", n(1000.0)));
        mat.push(("VAPOUR-DIFFUSIVITY-FACTOR", n(10.0)));
        mat.push(("GROUP", s("Cerámicos")));
    }
    d.push(blk("Ladrillo hueco", "MATERIAL", mat));
    d.push(blk("Camara R", "MATERIAL", vec![("TYPE", w("RESISTANCE")), ("RESISTANCE", n(0.25))]));
    if full {
        // a quoted string may hold the comment sign, brackets, commas and an equals sign
        d.push(blk("Aislante caro", "MATERIAL", vec![("TYPE", w("PROPERTIES")), ("CONDUCTIVITY", n(0.03125)), ("DENSITY", n(30.0)), ("GROUP", s("Aislantes 12$/m2 (oferta), a = b"))]));
    }
    let mut lay = vec![("MATERIAL", AVal::NameList(vec!["Ladrillo hueco".into(), "Camara R".into(), "Ladrillo hueco".into()])), ("THICKNESS", AVal::NumList(vec![0.125, 0.0, 0.25]))];
    if full {
        lay.insert(0, ("GROUP", s("Fachadas")));
    }
    d.push(blk("Muro tipo", "LAYERS", lay));
    let mut gl = vec![("TYPE", w("SHADING-COEF")), ("SHADING-COEF", n(0.5)), ("GLASS-CONDUCTANCE", n(2.75))];
    if full {
        gl.push(("GROUP", s("Vidrios")));
    }
    d.push(blk("Vidrio doble", "GLASS-TYPE", gl));
    d.push(blk("Marco PVC", "NAME-FRAME", vec![("GROUP", s("Marcos")), ("FRAME-WIDTH", n(0.125)), ("FRAME-CONDUCT", n(2.25)), ("FRAME-ABS", n(0.5))]));
    let mut gap = vec![("GROUP-GLASS", s("Vidrios")), ("GLASS-TYPE", s("Vidrio doble")), ("GROUP-FRAME", s("Marcos")), ("NAME-FRAME", s("Marco PVC")), ("PORCENTAGE", n(25.0)), ("INF-COEF", n(9.0))];
    if full {
        gap.push(("porcentajeIncrementoU", n(12.5)));
        gap.push(("TransmisividadJulio", n(0.5)));
        gap.push(("GROUP", s("Huecos")));
    }
    d.push(blk("Hueco tipo", "GAP", gap));
    if full {
        // frame shares at the ends of the range: below 1 %, none, all
        for (nm, pc) in [("Hueco marco fino", 0.5f32), ("Hueco sin marco", 0.0), ("Hueco todo marco", 100.0)] {
            d.push(blk(nm, "GAP", vec![("GROUP-GLASS", s("Vidrios")), ("GLASS-TYPE", s("Vidrio doble")), ("GROUP-FRAME", s("Marcos")), ("NAME-FRAME", s("Marco PVC")), ("PORCENTAGE", n(pc)), ("INF-COEF", n(9.0))]));
        }
    }
    // --- schedules
    d.push(blk("Dia A", "DAY-SCHEDULE-PD", vec![("TYPE", w("FRACTION")), ("VALUES", AVal::NumList((0..24).map(|h| h as f32 * 0.25).collect()))]));
    d.push(blk("Dia B", "DAY-SCHEDULE-PD", vec![("TYPE", w("FRACTION")), ("VALUES", AVal::NumList(vec![0.5]))]));
    d.push(blk("Semana A", "WEEK-SCHEDULE-PD", vec![("TYPE", w("FRACTION")), ("DAY-SCHEDULES", AVal::NameList(vec!["Dia A".into(), "Dia A".into(), "Dia A".into(), "Dia A".into(), "Dia A".into(), "Dia B".into(), "Dia B".into()]))]));
    d.push(blk("Anual A", "SCHEDULE-PD", vec![("TYPE", w("FRACTION")), ("MONTH", AVal::IntList(vec![5, 9, 12])), ("DAY", AVal::IntList(vec![31, 30, 31])), ("WEEK-SCHEDULES", AVal::NameList(vec!["Semana A".into(), "Semana A".into(), "Semana A".into()]))]));
    // --- geometry
    d.push(blk("P01_Pol", "POLYGON", vec![("V1", AVal::Point(vec![0.0, 0.0])), ("V2", AVal::Point(vec![10.0, 0.0])), ("V3", AVal::Point(vec![10.0, 7.5])), ("V4", AVal::Point(vec![-2.5, 7.5]))]));
    d.push(blk("Cub_Pol", "POLYGON", vec![("V1", AVal::Point(vec![0.0, 0.0])), ("V2", AVal::Point(vec![4.0, 0.0])), ("V3", AVal::Point(vec![4.0, 3.0]))]));
    let mut fl = vec![("SPACE-HEIGHT", n(2.75)), ("PREVIOUS", s("Ninguna"))];
    if full {
        fl.insert(0, ("Z", n(3.5)));
        fl.push(("MULTIPLIER", n(2.0)));
        // (floor to floor, the slab included: more than the clear height written as SPACE-HEIGHT)
        fl.push(("FLOOR-HEIGHT", n(3.25)));
    }
    d.push(blk("P01", "FLOOR", fl));
    let mut sp = vec![("SHAPE", w("POLYGON")), ("POLYGON", s("P01_Pol")), ("TYPE", w("CONDITIONED")), ("SPACE-TYPE", s("Residencial")), ("MULTIPLIER", n(3.0)), ("MULTIPLIED", n(1.0)), ("POWER", n(4.5)), ("VEEI-OBJ", n(7.0)), ("VEEI-REF", n(10.0))];
    if !legacy {
        sp.push(("SYSTEM-CONDITIONS", s("Consignas A")));
        sp.push(("SPACE-CONDITIONS", s("Cargas A")));
        sp.push(("perteneceALaEnvolventeTermica", w("NO")));
    }
    if full {
        sp.push(("HEIGHT", n(2.75)));
        sp.push(("X", n(1.5)));
        sp.push(("Y", n(-2.5)));
        sp.push(("Z", n(0.25)));
        sp.push(("AZIMUTH", n(30.0)));
        sp.push(("AIR-CHANGES/HR", n(0.75)));
    }
    d.push(blk("P01_E01", "SPACE", sp));
    let mut ew = vec![("CONSTRUCTION", s("Muro tipo")), ("LOCATION", w("SPACE-V2"))];
    if full {
        ew.push(("ABSORPTANCE", n(0.5)));
    }
    d.push(blk("P01_E01_PE001", "EXTERIOR-WALL", ew));
    let mut cons = vec![("TYPE", w("LAYERS")), ("LAYERS", s("Muro tipo"))];
    if full {
        cons.push(("ABSORPTANCE", n(0.75)));
    }
    d.push(blk("Muro tipo 0.75", "CONSTRUCTION", cons));
    if full {
        // a written zero is a value, not an absent attribute
        d.push(blk("Muro tipo 0", "CONSTRUCTION", vec![("TYPE", w("LAYERS")), ("LAYERS", s("Muro tipo")), ("ABSORPTANCE", n(0.0))]));
    }
    let mut win = vec![("X", n(1.5)), ("Y", n(0.75)), ("SETBACK", n(0.25)), ("HEIGHT", n(1.25)), ("WIDTH", n(2.0)), ("GAP", s("Hueco tipo"))];
    if full {
        win.push(("COEFF", AVal::NumList(vec![1.0, 0.5, 0.25, 1.0])));
        win.push(("OVERHANG-A", n(0.5)));
        win.push(("OVERHANG-B", n(0.25)));
        win.push(("OVERHANG-W", n(2.5)));
        win.push(("OVERHANG-D", n(0.75)));
        win.push(("OVERHANG-ANGLE", n(90.0)));
        win.push(("LEFT-FIN-A", n(0.125)));
        win.push(("LEFT-FIN-B", n(0.0)));
        win.push(("LEFT-FIN-H", n(1.5)));
        win.push(("LEFT-FIN-D", n(0.5)));
        win.push(("RIGHT-FIN-A", n(0.25)));
        win.push(("RIGHT-FIN-B", n(0.5)));
        win.push(("RIGHT-FIN-H", n(1.25)));
        win.push(("RIGHT-FIN-D", n(0.75)));
    }
    d.push(blk("P01_E01_PE001_V", "WINDOW", win));
    d.push(blk("P01_E01_ME001", "INTERIOR-WALL", vec![("INT-WALL-TYPE", w("ADIABATIC")), ("CONSTRUCTION", s("Muro tipo")), ("LOCATION", w("SPACE-V3"))]));
    d.push(blk("P01_E01_FTER", "UNDERGROUND-WALL", vec![("CONSTRUCTION", s("Muro tipo")), ("LOCATION", w("BOTTOM"))]));
    let mut roof = vec![("CONSTRUCTION", s("Muro tipo")), ("X", n(0.5)), ("Y", n(7.5)), ("Z", n(2.75)), ("AZIMUTH", n(270.0)), ("TILT", n(30.0)), ("POLYGON", s("Cub_Pol"))];
    if legacy {
        roof.retain(|(k, _)| *k != "X" && *k != "Z");
    }
    d.push(blk("P01_E01_CUB", "ROOF", roof));
    // --- shades / bridges
    d.push(blk("Sombra rect", "BUILDING-SHADE", vec![("TRAN", n(0.0)), ("REFL", n(0.5)), ("X", n(1.0)), ("Y", n(-4.0)), ("Z", n(0.5)), ("HEIGHT", n(3.0)), ("WIDTH", n(6.0)), ("AZIMUTH", n(180.0)), ("TILT", n(90.0))]));
    d.push(blk("Sombra vert", "BUILDING-SHADE", vec![("TRAN", n(0.25)), ("REFL", n(0.75)), ("V1", AVal::Point(vec![2.0, -1.0, 2.0])), ("V2", AVal::Point(vec![2.0, 0.0, 2.0])), ("V3", AVal::Point(vec![5.5, 0.0, 2.5])), ("V4", AVal::Point(vec![5.5, -1.0, 2.5]))]));
    // more than nine numbered vertices (V10.. sort before V2 as strings)
    {
        let ring: Vec<(f32, f32)> = (0..12).map(|i| (i as f32 + 1.0, if i % 2 == 0 { 0.0 } else { 0.5 })).collect();
        let mut a: Vec<(String, AVal)> = vec![("TRAN".into(), n(0.0)), ("REFL".into(), n(0.5))];
        for (i, p) in ring.iter().enumerate() {
            a.push((format!("V{}", i + 1), AVal::Point(vec![p.0, p.1, 2.0 + i as f32 * 0.25])));
        }
        d.push(ABlock { name: "Sombra 12 vertices".into(), btype: "BUILDING-SHADE".into(), attrs: a });
        let mut b: Vec<(String, AVal)> = vec![];
        for (i, p) in ring.iter().enumerate() {
            b.push((format!("V{}", i + 1), AVal::Point(vec![p.0, p.1 + i as f32])));
        }
        d.push(ABlock { name: "Pol 12 vertices".into(), btype: "POLYGON".into(), attrs: b });
        d.push(blk("P01_E01_CUB12", "ROOF", vec![("CONSTRUCTION", s("Muro tipo")), ("X", n(0.0)), ("Y", n(0.0)), ("Z", n(2.75)), ("AZIMUTH", n(0.0)), ("TILT", n(0.0)), ("POLYGON", s("Pol 12 vertices"))]));
    }
    let mut tb = vec![("LONG-TOTAL", n(12.5)), ("TTL", n(0.75)), ("FRSI", n(0.5))];
    if full {
        tb.push(("TYPE", w("PILLAR")));
        tb.push(("DEFINICION", n(1.0)));
    }
    d.push(blk("PILAR", "THERMAL-BRIDGE", tb));
    if !legacy {
        d.push(blk("Cargas A", "SPACE-CONDITIONS", vec![("PEOPLE-SCHEDULE", s("Anual A")), ("AREA/PERSON", n(12.5)), ("PEOPLE-HG-SENS", n(70.0)), ("PEOPLE-HG-LAT", n(45.0)), ("EQUIP-SCHEDULE", s("Anual A")), ("EQUIPMENT-W/AREA", n(4.5)), ("LIGHTING-SCHEDULE", s("Anual A")), ("LIGHTING-W/AREA", n(2.25))]));
        d.push(blk("Consignas A", "SYSTEM-CONDITIONS", vec![("TYPE", w("CONDITIONED")), ("HEAT-TEMP-SCH", s("Anual A")), ("COOL-TEMP-SCH", s("Anual A"))]));
    }
    d.push(blk("V-Adosada", "BUILD-PARAMETERS", vec![("AZIMUTH", n(37.5)), ("D-AISLAMIENTO-PERIMETRAL", n(1.0)), ("RA-AISLAMIENTO-PERIMETRAL", n(1.5))]));
    d
}

fn expected_parent(blocks: &[ABlock], idx: usize) -> Option<String> {
    let (mut floor, mut space, mut wall) = ("Default".to_string(), String::new(), String::new());
    let mut res = None;
    for (i, b) in blocks.iter().enumerate() {
        let p = match b.btype.as_str() {
            "FLOOR" => {
                floor = b.name.clone();
                None
            }
            "SPACE" => {
                space = b.name.clone();
                Some(floor.clone())
            }
            "EXTERIOR-WALL" | "INTERIOR-WALL" | "ROOF" | "UNDERGROUND-WALL" | "UNDERGROUND-FLOOR" => {
                wall = b.name.clone();
                Some(space.clone())
            }
            "CONSTRUCTION" | "WINDOW" | "DOOR" => Some(wall.clone()),
            _ => None,
        };
        if i == idx {
            res = p;
        }
    }
    res
}

fn f32s_of(v: &str) -> Option<Vec<f32>> {
    hulc::bdl::extract_f32vec(v.to_string()).ok()
}

/// compare what build_blocks recovered with the abstract document
fn check_blocks(ctx: &Ctx, abs: &[ABlock], got: &[BdlBlock], skip_first: usize, case: &dyn Fn() -> serde_json::Value) -> bool {
    let got = &got[skip_first.min(got.len())..];
    if got.len() != abs.len() {
        ctx.violation("build_blocks:block-count", &format!("{} blocks recovered, {} written", got.len(), abs.len()), case());
        return false;
    }
    for (i, (a, g)) in abs.iter().zip(got.iter()).enumerate() {
        if g.name != a.name {
            ctx.violation("build_blocks:name", &format!("block {}: name {:?} expected {:?}", i, g.name, a.name), case());
            return false;
        }
        if format!("{:?}", g.btype).to_lowercase().replace('-', "") != a.btype.to_lowercase().replace('-', "").replace("pd", "pd") && !type_matches(&a.btype, &format!("{:?}", g.btype)) {
            ctx.violation("build_blocks:type", &format!("block {}: type {:?} expected {}", a.name, g.btype, a.btype), case());
            return false;
        }
        let ep = expected_parent(abs, i);
        if g.parent != ep {
            ctx.violation(&format!("build_blocks:parent:{}", a.btype), &format!("block {} ({}): parent {:?} expected {:?}", a.name, a.btype, g.parent, ep), case());
            return false;
        }
        if g.attrs.0.len() != a.attrs.len() {
            ctx.violation("build_blocks:attr-count", &format!("block {}: {} attributes recovered, {} written", a.name, g.attrs.0.len(), a.attrs.len()), case());
            return false;
        }
        for (k, v) in &a.attrs {
            let ok = match v {
                AVal::Num(x) => g.attrs.get_f32(k).map_or(false, |y| y == *x),
                AVal::Str(t) | AVal::Word(t) => g.attrs.get_str(k).map_or(false, |y| y == *t),
                AVal::NumList(xs) | AVal::Point(xs) => g.attrs.get_str(k).ok().and_then(|y| f32s_of(&y)).map_or(false, |ys| ys == *xs) || (xs.len() == 1 && g.attrs.get_f32(k).map_or(false, |y| y == xs[0])),
                AVal::NameList(xs) => g.attrs.get_str(k).map_or(false, |y| hulc::bdl::extract_namesvec(y) == *xs),
                AVal::IntList(xs) => g.attrs.get_str(k).ok().and_then(|y| hulc::bdl::extract_u32vec(y).ok()).map_or(false, |ys| ys == *xs),
                AVal::Raw(_) => true,
            };
            if !ok {
                let kind = match v {
                    AVal::Num(_) => "number",
                    AVal::Str(_) => "quoted-string",
                    AVal::Word(_) => "word",
                    AVal::NumList(_) => "number-list",
                    AVal::Point(_) => "vertex",
                    AVal::NameList(_) => "name-list",
                    AVal::IntList(_) => "int-list",
                    AVal::Raw(_) => "raw",
                };
                ctx.violation(&format!("build_blocks:attr-value:{}", kind), &format!("block {}: attribute {} = {:?}, written {:?}", a.name, k, g.attrs.get(k).ok(), v), case());
                return false;
            }
        }
    }
    true
}

/// [+-]?digits[.digits][(e|E)[+-]digits]
fn is_numeric_literal(t: &str) -> bool {
    let b = t.as_bytes();
    let mut i = 0;
    if i < b.len() && (b[i] == b'+' || b[i] == b'-') {
        i += 1;
    }
    let d0 = i;
    while i < b.len() && b[i].is_ascii_digit() {
        i += 1;
    }
    let mut digits = i - d0;
    if i < b.len() && b[i] == b'.' {
        i += 1;
        let d1 = i;
        while i < b.len() && b[i].is_ascii_digit() {
            i += 1;
        }
        digits += i - d1;
    }
    if digits == 0 {
        return false;
    }
    if i < b.len() && (b[i] == b'e' || b[i] == b'E') {
        i += 1;
        if i < b.len() && (b[i] == b'+' || b[i] == b'-') {
            i += 1;
        }
        let d2 = i;
        while i < b.len() && b[i].is_ascii_digit() {
            i += 1;
        }
        if i == d2 {
            return false;
        }
    }
    i == b.len()
}

fn type_matches(written: &str, dbg: &str) -> bool {
    let canon = |s: &str| s.to_lowercase().replace(['-', '_'], "");
    canon(written) == canon(dbg)
}

/// typed elements built by Data::new carry the written values / documented defaults
fn check_typed(ctx: &Ctx, variant: usize, d: &Data, case: &dyn Fn() -> serde_json::Value) {
    let full = variant == 0;
    let legacy = variant == 2;
    let mut bad = |what: &str, msg: String| ctx.violation(&format!("typed:{}", what), &msg, case());
    // materials
    match d.db.materials.get("Ladrillo hueco") {
        Some(m) => {
            let p = m.properties;
            let exp_sh = if full { 1000.0 } else { 800.0 };
            if p.map(|p| (p.conductivity, p.density, p.specificheat, p.vapourdiffusivity, p.thickness)) != Some((0.5, 1200.0, exp_sh, if full { Some(10.0) } else { None }, if full { Some(0.125) } else { None })) || m.resistance.is_some() || m.group != if full { "Cerámicos" } else { "Materiales" } {
                bad("MATERIAL", format!("{:?}", m));
            }
        }
        None => bad("MATERIAL", "material missing".into()),
    }
    match d.db.materials.get("Camara R") {
        Some(m) if m.resistance == Some(0.25) && m.properties.is_none() => {}
        other => bad("MATERIAL:resistance", format!("{:?}", other)),
    }
    if full {
        match d.db.materials.get("Aislante caro") {
            Some(m) if m.group == "Aislantes 12$/m2 (oferta), a = b" && m.properties.map(|p| (p.conductivity, p.density)) == Some((0.03125, 30.0)) => {}
            other => bad("MATERIAL:quoted-string-with-signs", format!("{:?}", other)),
        }
    }
    match d.db.wallcons.get("Muro tipo") {
        Some(c) if c.material == vec!["Ladrillo hueco", "Camara R", "Ladrillo hueco"] && c.thickness == vec![0.125, 0.0, 0.25] => {}
        other => bad("LAYERS", format!("{:?}", other)),
    }
    match d.db.wallcons.get("Muro tipo 0.75") {
        Some(c) if c.absorptance == if full { 0.75 } else { 0.6 } && c.thickness == vec![0.125, 0.0, 0.25] => {}
        other => bad("CONSTRUCTION", format!("{:?}", other)),
    }
    if full {
        match d.db.wallcons.get("Muro tipo 0") {
            Some(c) if c.absorptance == 0.0 => {}
            other => bad("CONSTRUCTION:absorptance-written-as-zero", format!("{:?}", other.map(|c| c.absorptance))),
        }
    }
    match d.db.glasses.get("Vidrio doble") {
        Some(g) if g.conductivity == 2.75 && (g.g_gln - 0.5 * 0.86).abs() < 1e-6 => {}
        other => bad("GLASS-TYPE", format!("{:?}", other)),
    }
    match d.db.frames.get("Marco PVC") {
        Some(f) if f.conductivity == 2.25 && f.absorptivity == 0.5 && f.width == 0.125 => {}
        other => bad("NAME-FRAME", format!("{:?}", other)),
    }
    match d.db.wincons.get("Hueco tipo") {
        Some(c) if c.glass == "Vidrio doble" && c.frame == "Marco PVC" && c.framefrac == 0.25 && c.infcoeff == 9.0 && c.deltau == if full { 12.5 } else { 0.0 } && c.gglshwi == if full { Some(0.5) } else { None } => {}
        other => bad("GAP", format!("{:?}", other)),
    }
    if full {
        for (nm, ff) in [("Hueco marco fino", 0.005f32), ("Hueco sin marco", 0.0), ("Hueco todo marco", 1.0)] {
            match d.db.wincons.get(nm) {
                Some(c) if (c.framefrac - ff).abs() < 1e-7 => {}
                other => bad("GAP:frame-share-at-the-end-of-the-range", format!("{}: {:?}, written share {} %", nm, other.map(|c| c.framefrac), ff * 100.0)),
            }
        }
    }
    // spaces / floors
    match d.spaces.first() {
        Some(s) => {
            let exp_inside = if legacy { true } else { false }; // legacy: conditioned => inside
            let ok = s.name == "P01_E01"
                && s.stype == "CONDITIONED"
                && s.floor == "P01"
                && s.height == 2.75
                && s.multiplier == 3.0
                && s.ismultiplied
                && s.floor_multiplier == if full { 2.0 } else { 1.0 }
                && s.z == if full { 3.75 } else { 0.0 }
                && (s.x, s.y, s.angle_with_building_north) == if full { (1.5, -2.5, 30.0) } else { (0.0, 0.0, 0.0) }
                && s.insidete == exp_inside
                && s.power == 4.5
                && s.veei_obj == 7.0
                && s.veei_ref == 10.0
                && s.spacetype == "Residencial"
                && s.spaceconds == if legacy { "Residencial" } else { "Cargas A" }
                && s.systemconds == if legacy { "Residencial" } else { "Consignas A" }
                && s.airchanges_h == if full { Some(0.75) } else { None }
                && s.polygon.0.len() == 4
                && s.polygon.0[3].x == -2.5
                && s.polygon.0[2].y == 7.5;
            if !ok {
                bad("SPACE", format!("{:?}", s));
            }
        }
        None => bad("SPACE", "space missing".into()),
    }
    // walls
    let wall = |n: &str| d.walls.iter().find(|w| w.name == n);
    match wall("P01_E01_PE001") {
        Some(w) if w.space == "P01_E01" && w.cons == "Muro tipo" && w.location.as_deref() == Some("V2") && w.tilt == 90.0 && w.bounds == hulc::bdl::BoundaryType::EXTERIOR && (w.angle_with_space_north - 90.0).abs() < 1e-3 => {}
        other => bad("EXTERIOR-WALL", format!("{:?}", other)),
    }
    match wall("P01_E01_ME001") {
        Some(w) if w.bounds == hulc::bdl::BoundaryType::ADIABATIC && w.location.as_deref() == Some("V3") && w.space == "P01_E01" => {}
        other => bad("INTERIOR-WALL", format!("{:?}", other)),
    }
    match wall("P01_E01_FTER") {
        Some(w) if w.bounds == hulc::bdl::BoundaryType::GROUND && w.location.as_deref() == Some("BOTTOM") && w.tilt == 180.0 => {}
        other => bad("UNDERGROUND-WALL", format!("{:?}", other)),
    }
    match wall("P01_E01_CUB") {
        Some(w) if w.bounds == hulc::bdl::BoundaryType::EXTERIOR && w.tilt == 30.0 && w.angle_with_space_north == 270.0 && (w.x, w.y, w.z) == if legacy { (0.0, 7.5, 0.0) } else { (0.5, 7.5, 2.75) } && w.polygon.as_ref().map(|p| p.0.len()) == Some(3) => {}
        other => bad("ROOF", format!("{:?}", other)),
    }
    match d.windows.first() {
        Some(v) => {
            let ok = v.name == "P01_E01_PE001_V" && v.wall == "P01_E01_PE001" && v.cons == "Hueco tipo" && (v.x, v.y, v.width, v.height, v.setback) == (1.5, 0.75, 2.0, 1.25, 0.25);
            let ok2 = if full {
                v.coefs == Some(vec![1.0, 0.5, 0.25, 1.0]) && v.overhang.as_ref().map(|o| (o.a, o.b, o.width, o.depth, o.angle)) == Some((0.5, 0.25, 2.5, 0.75, 90.0)) && v.left_fin.as_ref().map(|f| (f.a, f.b, f.height, f.depth)) == Some((0.125, 0.0, 1.5, 0.5)) && v.right_fin.as_ref().map(|f| (f.a, f.b, f.height, f.depth)) == Some((0.25, 0.5, 1.25, 0.75))
            } else {
                v.coefs.is_none() && v.overhang.is_none() && v.left_fin.is_none() && v.right_fin.is_none()
            };
            if !(ok && ok2) {
                bad("WINDOW", format!("{:?}", v));
            }
        }
        None => bad("WINDOW", "window missing".into()),
    }
    match d.shadings.iter().find(|s| s.name == "Sombra rect") {
        Some(sh) if sh.tran == 0.0 && sh.refl == 0.5 && sh.geometry.as_ref().map(|g| (g.x, g.y, g.z, g.height, g.width, g.azimuth, g.tilt)) == Some((1.0, -4.0, 0.5, 3.0, 6.0, 180.0, 90.0)) => {}
        other => bad("BUILDING-SHADE:rect", format!("{:?}", other)),
    }
    match d.shadings.iter().find(|s| s.name == "Sombra vert") {
        Some(sh) if sh.vertices.as_ref().map(|v| (v.len(), v[2].x, v[2].z, v[3].y)) == Some((4, 5.5, 2.5, -1.0)) => {}
        other => bad("BUILDING-SHADE:vertices", format!("{:?}", other)),
    }
    match d.shadings.iter().find(|s| s.name == "Sombra 12 vertices") {
        Some(sh) if sh.vertices.as_ref().map_or(false, |v| v.len() == 12 && (0..12).all(|i| v[i].x == i as f32 + 1.0 && v[i].z == 2.0 + i as f32 * 0.25)) => {}
        other => bad("BUILDING-SHADE:12-vertices", format!("{:?}", other)),
    }
    match d.walls.iter().find(|w| w.name == "P01_E01_CUB12").and_then(|w| w.polygon.as_ref()) {
        Some(p) if p.0.len() == 12 && (0..12).all(|i| p.0[i].x == i as f32 + 1.0 && p.0[i].y == (if i % 2 == 0 { 0.0 } else { 0.5 }) + i as f32) => {}
        other => bad("POLYGON:12-vertices", format!("{:?}", other)),
    }
    match d.thermal_bridges.first() {
        Some(t) if t.name == "PILAR" && t.length == Some(12.5) && t.psi == 0.75 && t.frsi == 0.5 => {}
        other => bad("THERMAL-BRIDGE", format!("{:?}", other)),
    }
    // schedules
    let mut nd = 0;
    for sch in &d.schedules {
        match sch {
            hulc::bdl::Schedule::Day(x) if x.name == "Dia A" => {
                nd += 1;
                if x.values.len() != 24 || x.values[5] != 1.25 {
                    bad("DAY-SCHEDULE-PD", format!("{:?}", x));
                }
            }
            hulc::bdl::Schedule::Day(x) if x.name == "Dia B" => {
                nd += 1;
                if x.values != vec![0.5] {
                    bad("DAY-SCHEDULE-PD:single", format!("{:?}", x));
                }
            }
            hulc::bdl::Schedule::Week(x) => {
                nd += 1;
                if x.days != vec!["Dia A", "Dia A", "Dia A", "Dia A", "Dia A", "Dia B", "Dia B"] {
                    bad("WEEK-SCHEDULE-PD", format!("{:?}", x));
                }
            }
            hulc::bdl::Schedule::Year(x) => {
                nd += 1;
                if x.months != vec![5, 9, 12] || x.days != vec![31, 30, 31] || x.weeks.len() != 3 {
                    bad("SCHEDULE-PD", format!("{:?}", x));
                }
            }
            _ => {}
        }
    }
    if nd != 4 {
        bad("schedules:count", format!("{} schedule blocks recovered", nd));
    }
    if !legacy && (d.space_conditions.get("Cargas A").map_or(true, |b| b.attrs.get_f32("AREA/PERSON").ok() != Some(12.5)) || d.system_conditions.get("Consignas A").is_none()) {
        bad("SPACE-CONDITIONS", "conditions blocks not recovered".into());
    }
    match d.meta.get(&hulc::bdl::BdlBlockType::BuildParameters) {
        Some(b) if b.attrs.get_f32("AZIMUTH").ok() == Some(37.5) => {}
        other => bad("BUILD-PARAMETERS", format!("{:?}", other.map(|b| &b.attrs))),
    }
}

// ---------------------------------------------------------------- kyg / tbl

fn kyg_doc(new_layout: bool, comma: bool, nw: usize) -> String {
    let dec = |x: &str| if comma { x.replace('.', ",") } else { x.to_string() };
    let mut s = String::from("###;Datos para Factor de Pérdidas\n");
    for i in 0..nw {
        if new_layout {
            s += &format!("Ventana;V{i};{};{};S ;{};{};-1.00;1.00;{};Doble Claro 4,6 tipo {i}\n", dec("2.50"), dec("3.25"), dec("12.50"), dec("0.75"), dec("27.00"));
        } else {
            s += &format!("Ventana;V{i};{};{};O ;{}\n", dec("2.50"), dec("3.25"), dec("12.50"));
        }
    }
    if new_layout {
        s += &format!("Muro;M0;{};{};{};Fachada;S ;Fachada por defecto C, D\n", dec("28.00"), dec("1.75"), dec("1.00"));
    } else {
        s += &format!("Muro;M0;{};{};{}\n", dec("28.00"), dec("1.75"), dec("1.00"));
    }
    s += &format!("PPTT;{};{};UNION_CUBIERTA{}\n", dec("54.25"), dec("0.875"), if new_layout { ";SDINT" } else { "" });
    s += &format!("Coeficiente K = ;{}\n", dec("1.625"));
    s += "###;Datos para Factor de Insolación\n";
    for k in 0..9 {
        s += &format!("{} ; {}\n", k, dec(&format!("{}.5", 60 + k)));
    }
    for i in 0..nw {
        s += &format!("\"V{i}\"; 180.000000; 2.500000; 80000.000000; 50000.000000; 48000.000000; 40000.000000; 43337.710938\n");
    }
    s += "###;Fin\n### Documentación ; con ; separadores\n";
    s
}

fn check_kyg(ctx: &Ctx, new_layout: bool, comma: bool, nw: usize) {
    let doc = kyg_doc(new_layout, comma, nw);
    let case = || json!({"part": "kyg", "new_layout": new_layout, "decimal_comma": comma, "windows": nw, "text": doc});
    match catch(std::panic::AssertUnwindSafe(|| hulc::kyg::parse(&doc))) {
        Ok(Ok(k)) => {
            let mut ok = k.k == 1.625 && k.windows.len() == nw && k.walls.len() == 1 && k.thermal_bridges.len() == 1 && k.hfactors.len() == 9 && k.hfactors[8] == 68.5;
            for i in 0..nw {
                match k.windows.get(&format!("V{i}")) {
                    Some(w) => {
                        ok &= w.a == 2.5 && w.u == 3.25 && w.ff == 0.125 && w.fshobst == 0.5 && w.azimuth_n == 180.0 && w.orientation == if new_layout { "S" } else { "W" };
                        ok &= if new_layout { w.ggln == Some(0.75) && w.infcoeff_100 == Some(27.0) && w.cons.as_deref() == Some(&format!("Doble Claro 4,6 tipo {i}")) } else { w.ggln.is_none() && w.cons.is_none() };
                    }
                    None => ok = false,
                }
            }
            match k.walls.get("M0") {
                Some(w) => ok &= w.a == 28.0 && w.u == 1.75 && w.btrx == 1.0 && if new_layout { w.wtype.as_deref() == Some("Fachada") && w.cons.as_deref() == Some("Fachada por defecto C, D") } else { w.wtype.is_none() },
                None => ok = false,
            }
            match k.thermal_bridges.get("UNION_CUBIERTA") {
                Some(t) => ok &= t.l == 54.25 && t.psi == 0.875 && t.sisdim == if new_layout { "SDINT" } else { "" },
                None => ok = false,
            }
            if !ok {
                ctx.violation(&format!("kyg:values:{}:{}", if new_layout { "new" } else { "old" }, if comma { "comma" } else { "point" }), &format!("recovered {:?}", k), case());
            }
        }
        Ok(Err(e)) => ctx.violation(&format!("kyg:rejected:{}:{}", if new_layout { "new" } else { "old" }, if comma { "comma" } else { "point" }), &format!("{}", e), case()),
        Err(p) => ctx.violation(&format!("kyg:panic:{}", panic_key(&p)), &p, case()),
    }
}

fn check_tbl(ctx: &Ctx, ne: usize, ns: usize, quoted: bool) {
    let q = |s: &str| if quoted { format!("\"{}\"", s) } else { s.to_string() };
    let mut doc = String::from("Nombre\n A U p f fv angNorte tilt tipo codigo0 codigo1\n");
    doc += &format!("{} {}\n", ne, ns);
    let types = ["1", "0", "-4"];
    for i in 0..ne {
        doc += &format!("{}\n {}.500000 1.250000 25.000000 0.750000 0.500000 180.000000 90.000000 {} {} -1\n", q(&format!("E{i}")), i + 2, types[i % 3], i);
    }
    for i in 0..ns {
        doc += &format!("{}\n -1 {} 100.500000 4.250000\n", q(&format!("S{i}")), i + 1);
    }
    let path = format!("{}/.cache/tbl-{}-{}.tbl", verif_dir(), std::process::id(), hash64(&doc));
    std::fs::write(&path, &doc).unwrap();
    let case = || json!({"part": "tbl", "elements": ne, "spaces": ns, "quoted": quoted, "text": doc});
    let r = catch(std::panic::AssertUnwindSafe(|| hulc::tbl::parse(&path)));
    let _ = std::fs::remove_file(&path);
    match r {
        Ok(Ok(t)) => {
            let mut ok = t.elements.len() == ne && t.spaces.len() == ns;
            for i in 0..ne {
                match t.elements.get(&format!("E{i}")) {
                    Some(e) => ok &= e.area == i as f32 + 2.5 && e.u == 1.25 && e.w_or_inf == 25.0 && e.g_winter == 0.75 && e.g_summer == 0.5 && e.ang_north == 180.0 && e.tilt == 90.0 && e.id_surf == i as i32 && e.id_space == -1,
                    None => ok = false,
                }
            }
            for i in 0..ns {
                match t.spaces.get(&format!("S{i}")) {
                    Some(s) => ok &= s.id_space == -1 && s.mult == i as i32 + 1 && s.area == 100.5 && s.qint == 4.25,
                    None => ok = false,
                }
            }
            if !ok {
                ctx.violation("tbl:values", &format!("recovered {:?}", t), case());
            }
        }
        Ok(Err(e)) => ctx.violation("tbl:rejected", &format!("{:#}", e), case()),
        Err(p) => ctx.violation(&format!("tbl:panic:{}", panic_key(&p)), &p, case()),
    }
}

// ---------------------------------------------------------------- real files

fn bdl_of_file(path: &str) -> String {
    if path.ends_with(".ctehexml") {
        let t = corpus::read_utf8(path);
        let i = t.find("<EntradaGraficaLIDER>").map(|i| i + "<EntradaGraficaLIDER>".len()).unwrap_or(0);
        let j = t.find("</EntradaGraficaLIDER>").unwrap_or(t.len());
        t[i..j].trim().trim_start_matches("<![CDATA[").trim_end_matches("]]>").to_string()
    } else {
        corpus::read_latin1(path)
    }
}

pub fn run(ctx: &Ctx) -> i32 {
    let layouts = Layout::all();
    let mut outcomes: HashSet<u64> = HashSet::new();
    // A+B: project documents x all layouts
    for variant in 0..3 {
        let abs = project_doc(variant);
        #[derive(Default)]
        struct A {
            n: u64,
            out: HashSet<u64>,
        }
        let accs = par_fold(layouts.len() as u64, |i, a: &mut A| {
            let l = layouts[i as usize];
            // a file that starts the HULC way (loose attributes + general data) may hold, further down, a description
            // block named "Defecto" like the one old LIDER files start with: it is one more block
            let with_descr: Vec<ABlock>;
            let abs: &Vec<ABlock> = if l.preamble && variant == 0 {
                let mut d = abs.clone();
                d.insert(d.len() / 2, blk("Defecto", "DESCRIPTION", vec![("PROJECTNAME", s("Adosado 166")), ("LOCALITY", s("Palencia"))]));
                with_descr = d;
                &with_descr
            } else {
                &abs
            };
            let text = print_doc(abs, &l);
            let case = || json!({"part": "project-doc", "variant(0 all,1 mandatory,2 legacy)": variant, "layout": format!("{:?}", l), "text": text});
            a.n += 1;
            match catch(std::panic::AssertUnwindSafe(|| build_blocks(&text))) {
                Ok(Ok(got)) => {
                    // with the LIDER preamble two extra blocks come first (PARTELIDER + GENERAL-DATA)
                    let skip = if l.preamble { 2 } else { 0 };
                    if l.preamble && (got.len() < 2 || format!("{:?}", got[0].btype) != "ParteLider" || got[1].name != "DATOS GENERALES") {
                        ctx.violation("build_blocks:preamble", "LIDER preamble not wrapped / general data block lost", case());
                    }
                    if check_blocks(ctx, abs, &got, skip, &case) {
                        a.out.insert(hash64(&got.len()));
                    }
                }
                Ok(Err(e)) => ctx.violation("build_blocks:rejected", &format!("{}", e).chars().take(200).collect::<String>(), case()),
                Err(p) => ctx.violation(&format!("build_blocks:panic:{}", panic_key(&p)), &p, case()),
            }
            match catch(std::panic::AssertUnwindSafe(|| Data::new(&text))) {
                Ok(Ok(d)) => {
                    check_typed(ctx, variant, &d, &case);
                    a.out.insert(hash64(&format!("{:?}", d.walls.len())));
                }
                Ok(Err(e)) => ctx.violation("Data::new:rejected", &format!("{}", e).chars().take(200).collect::<String>(), case()),
                Err(p) => ctx.violation(&format!("Data::new:panic:{}", panic_key(&p)), &p, case()),
            }
        });
        for a in &accs {
            ctx.eval(a.n);
            ctx.nontriv(a.n);
            outcomes.extend(a.out.iter());
        }
    }
    ctx.sample(json!({"part": "project-doc", "variant": "all attributes", "layout": format!("{:?}", layouts[777]), "text_head": print_doc(&project_doc(0), &layouts[777]).chars().take(400).collect::<String>()}));
    // parent tracking: every ordered pair and triple of block kinds, and every cyclic order of the full document
    let kinds: Vec<ABlock> = vec![
        blk("F1", "FLOOR", vec![("SPACE-HEIGHT", n(3.0))]),
        blk("S1", "SPACE", vec![("SHAPE", w("POLYGON"))]),
        blk("W1", "EXTERIOR-WALL", vec![("LOCATION", w("TOP"))]),
        blk("W2", "INTERIOR-WALL", vec![("LOCATION", w("TOP"))]),
        blk("R1", "ROOF", vec![("TILT", n(0.0))]),
        blk("U1", "UNDERGROUND-WALL", vec![("LOCATION", w("BOTTOM"))]),
        blk("C1", "CONSTRUCTION", vec![("TYPE", w("LAYERS"))]),
        blk("V1", "WINDOW", vec![("X", n(1.0))]),
        blk("M1", "MATERIAL", vec![("TYPE", w("RESISTANCE"))]),
        blk("P1", "POLYGON", vec![("V1", AVal::Point(vec![0.0, 0.0]))]),
        blk("T1", "THERMAL-BRIDGE", vec![("TTL", n(0.5))]),
    ];
    let nk = kinds.len();
    let depth = ctx.tier.pick(3u32, 4u32);
    let total: u64 = (2..=depth).map(|d| (nk as u64).pow(d)).sum();
    let mut pn = 0u64;
    {
        #[derive(Default)]
        struct A {
            n: u64,
        }
        // second half of the index space: the same sequences with one name for all blocks (old LIDER files repeat a
        // block under every wall) and a distinguishing attribute value per occurrence
        let accs = par_fold(2 * total, |i, a: &mut A| {
            let same_name = i >= total;
            let mut i = i % total;
            let mut d = 2;
            loop {
                let c = (nk as u64).pow(d);
                if i < c {
                    break;
                }
                i -= c;
                d += 1;
            }
            let mut seq = vec![];
            for p in 0..d {
                let mut b = kinds[(i % nk as u64) as usize].clone();
                if same_name {
                    b.name = "Same name".into();
                    b.attrs.push(("ZZ-OCCURRENCE".into(), n(p as f32 + 0.5)));
                } else {
                    b.name = format!("{}_{}", b.name, p);
                }
                seq.push(b);
                i /= nk as u64;
            }
            let text = print_doc(&seq, &Layout::plain());
            let case = || json!({"part": "parent-tracking", "same_name": same_name, "types": seq.iter().map(|b| b.btype.clone()).collect::<Vec<_>>(), "text": text});
            a.n += 1;
            match catch(std::panic::AssertUnwindSafe(|| build_blocks(&text))) {
                Ok(Ok(got)) => {
                    check_blocks(ctx, &seq, &got, 0, &case);
                }
                Ok(Err(e)) => ctx.violation("build_blocks:rejected", &format!("{}", e).chars().take(200).collect::<String>(), case()),
                Err(p) => ctx.violation(&format!("build_blocks:panic:{}", panic_key(&p)), &p, case()),
            }
        });
        for a in &accs {
            pn += a.n;
        }
    }
    // documents of 1..40 blocks: every prefix length of every cyclic rotation of the (full) project document
    let full = project_doc(0);
    let mut cyc = 0u64;
    for rot in 0..full.len() {
        let mut r = full.clone();
        r.rotate_left(rot);
        for len in 1..=r.len().min(40) {
            if ctx.tier == Tier::Quick && (len + rot) % 3 != 0 {
                continue;
            }
            let doc = &r[..len];
            let l = layouts[(rot * 41 + len * 7) % layouts.len()];
            let text = print_doc(doc, &l);
            let case = || json!({"part": "cyclic-document", "rotation": rot, "blocks": len, "layout": format!("{:?}", l)});
            cyc += 1;
            match catch(std::panic::AssertUnwindSafe(|| build_blocks(&text))) {
                Ok(Ok(got)) => {
                    check_blocks(ctx, doc, &got, if l.preamble { 2 } else { 0 }, &case);
                }
                Ok(Err(e)) => ctx.violation("build_blocks:rejected", &format!("{}", e).chars().take(200).collect::<String>(), case()),
                Err(p) => ctx.violation(&format!("build_blocks:panic:{}", panic_key(&p)), &p, case()),
            }
        }
    }
    ctx.eval(pn + cyc);
    ctx.nontriv(pn + cyc);
    ctx.note("parent_tracking", json!({"sequences": pn, "max_len": depth, "cyclic_documents": cyc}));
    // C: real files re-printed in uniform layouts
    let mut files: Vec<String> = corpus::project_dirs().iter().filter_map(|d| corpus::ctehexml_path(d)).collect();
    files.extend(corpus::cte_files());
    let nlay = ctx.tier.pick(4usize, 32usize);
    #[derive(Default)]
    struct B {
        n: u64,
        ok: u64,
        out: HashSet<u64>,
    }
    let accs = par_fold(files.len() as u64, |fi, b: &mut B| {
        let path = &files[fi as usize];
        let text = bdl_of_file(path);
        let orig = catch(std::panic::AssertUnwindSafe(|| Data::new(&text)));
        let orig_dbg = match &orig {
            Ok(Ok(d)) => format!("{:?}", d),
            _ => return, // unreadable originals are C19's business (they are listed there)
        };
        let lx = lex(&text);
        // every attribute whose written value is a numeric literal must be recovered as that number
        if let Ok(Ok(pb)) = catch(std::panic::AssertUnwindSafe(|| build_blocks(&text))) {
            let mut used = vec![false; pb.len()];
            for rb in lx.blocks.iter().filter(|b| !b.name.is_empty()) {
                let Some(pi) = (0..pb.len()).find(|i| !used[*i] && pb[*i].name == rb.name && type_matches(&rb.btype, &format!("{:?}", pb[*i].btype))) else { continue };
                used[pi] = true;
                for (k, v) in &rb.attrs {
                    let raw = v.trim().trim_matches('"');
                    if is_numeric_literal(raw) {
                        b.n += 1;
                        let want = raw.parse::<f64>().unwrap() as f32;
                        // the last occurrence of a repeated key wins in the parser
                        if rb.attrs.iter().filter(|(k2, _)| k2 == k).count() > 1 {
                            continue;
                        }
                        match pb[pi].attrs.get_f32(k) {
                            Ok(got) if got == want || (got.is_infinite() && want.is_infinite()) => {}
                            other => ctx.violation("real-file:numeric-attribute-not-a-number", &format!("{}: block {:?} attribute {} = {} is recovered as {:?}", path.rsplit('/').next().unwrap(), rb.name, k, raw, other.ok()), json!({"part": "real-file", "file": path, "block": rb.name, "attribute": k, "written": raw})),
                        }
                    }
                }
            }
        }
        for k in 0..nlay {
            let bits = if nlay == 32 { k } else { [0b00000, 0b11111, 0b10101, 0b01010][k] };
            let re = reprint(&lx, bits & 1 != 0, if bits & 2 != 0 { "\t" } else { "      " }, bits & 4 != 0, bits & 8 != 0, bits & 16 != 0);
            b.n += 1;
            let case = || json!({"part": "real-file", "file": path, "layout_bits(crlf,tab,blank,comment,break_lists)": bits});
            match catch(std::panic::AssertUnwindSafe(|| Data::new(&re))) {
                Ok(Ok(d)) => {
                    let dbg = format!("{:?}", d);
                    if dbg != orig_dbg {
                        let pos = dbg.bytes().zip(orig_dbg.bytes()).position(|(a, c)| a != c).unwrap_or(0);
                        let lo = pos.saturating_sub(80);
                        ctx.violation("real-file:reprint-differs", &format!("{}: parsed data differs after re-printing; original ...{}... reprinted ...{}...", path.rsplit('/').next().unwrap(), &orig_dbg[lo..(pos + 60).min(orig_dbg.len())].replace('\n', " "), &dbg[lo..(pos + 60).min(dbg.len())].replace('\n', " ")), case());
                    } else {
                        b.ok += 1;
                    }
                }
                Ok(Err(e)) => ctx.violation("real-file:reprint-rejected", &format!("{}: {}", path.rsplit('/').next().unwrap(), format!("{}", e).chars().take(160).collect::<String>()), case()),
                Err(p) => ctx.violation(&format!("real-file:reprint-panic:{}", panic_key(&p)), &format!("{}: {}", path, p), case()),
            }
        }
        b.out.insert(hash64(&orig_dbg.len()));
    });
    let (mut rn, mut rok) = (0, 0);
    for a in &accs {
        rn += a.n;
        rok += a.ok;
        outcomes.extend(a.out.iter());
    }
    ctx.eval(rn);
    ctx.nontriv(rok);
    ctx.note("real_files", json!({"files": files.len(), "layouts_per_file": nlay, "reprints_checked": rn, "identical": rok}));
    // D: kyg / tbl
    let mut kn = 0;
    for new_layout in [false, true] {
        for comma in [false, true] {
            for nw in 0..3 {
                check_kyg(ctx, new_layout, comma, nw);
                kn += 1;
            }
        }
    }
    for ne in 0..4 {
        for ns in 0..4 {
            for quoted in [true, false] {
                check_tbl(ctx, ne, ns, quoted);
                kn += 1;
            }
        }
    }
    // shipped kyg/tbl files parse
    for d in corpus::project_dirs() {
        let k = format!("{}/KyGananciasSolares.txt", d);
        if std::path::Path::new(&k).exists() {
            kn += 1;
            if !matches!(catch(std::panic::AssertUnwindSafe(|| hulc::kyg::parse_from_path(&k))), Ok(Ok(_))) {
                ctx.violation("kyg:shipped-file-rejected", &k, json!({"file": k}));
            }
        }
        let t = format!("{}/NewBDL_O.tbl", d);
        if std::path::Path::new(&t).exists() {
            kn += 1;
            if !matches!(catch(std::panic::AssertUnwindSafe(|| hulc::tbl::parse(&t))), Ok(Ok(_))) {
                ctx.violation("tbl:shipped-file-rejected", &t, json!({"file": t}));
            }
        }
    }
    ctx.eval(kn);
    ctx.nontriv(kn);
    ctx.sample(json!({"part": "kyg", "new_layout": true, "decimal_comma": true, "text_head": kyg_doc(true, true, 1).chars().take(300).collect::<String>()}));
    ctx.outcome_merge(&outcomes);
    ctx.finish(
        "model_checking",
        &format!("project documents (every supported block type; quoted strings with accents and with the signs $ ( ) , =; 3 abstract variants: all attributes / mandatory only / legacy LIDER; with the HULC preamble the full variant also holds a DESCRIPTION block named \"Defecto\" half way down) printed in the full product of layout switches {{LF,CRLF}} x attribute order{{file,reversed,rotated}} x number format{{shortest, %.6f, right-aligned, exponent with explicit sign, explicit plus sign}} x words{{bare,quoted}} x lists{{one line, broken after commas, closing paren alone, broken before commas}} x comments/blank lines{{none, between, inside}} x indentation{{none, tab, 12 spaces + trailing blanks}} x preamble{{none, LIDER}} = 2880 layouts: build_blocks recovers name, type, parent and every attribute value (numbers exactly, lists through extract_*vec), Data::new's typed elements carry the written values / documented defaults; parent tracking on all sequences of length 2..{} over 11 block kinds (each also with one shared name for all its blocks and a distinguishing attribute value per occurrence) and all prefixes of all cyclic rotations of the document; {} real files re-printed by an independent lexer in {} uniform layouts must parse to Debug-identical Data, and every attribute of a real file whose written value is a numeric literal must be recovered as that number; KyG (old/new columns x ./, x 0..2 windows; construction names with commas next to decimal commas) and tbl (0..3 elements x 0..3 spaces x quoting) printers", depth, files.len(), nlay),
        true,
        json!({}),
    )
}
