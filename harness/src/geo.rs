//! f64 geometry oracle: poses (T·Rz(az)·Rx(tilt)), ray / planar-polygon tests with ambiguity bands

use bemodel::*;

pub type V3 = [f64; 3];

pub fn add(a: V3, b: V3) -> V3 {
    [a[0] + b[0], a[1] + b[1], a[2] + b[2]]
}
pub fn sub(a: V3, b: V3) -> V3 {
    [a[0] - b[0], a[1] - b[1], a[2] - b[2]]
}
pub fn dot(a: V3, b: V3) -> f64 {
    a[0] * b[0] + a[1] * b[1] + a[2] * b[2]
}
pub fn scale(a: V3, s: f64) -> V3 {
    [a[0] * s, a[1] * s, a[2] * s]
}
pub fn norm(a: V3) -> f64 {
    dot(a, a).sqrt()
}
pub fn unit(a: V3) -> V3 {
    scale(a, 1.0 / norm(a))
}

#[derive(Clone, Copy, Debug)]
pub struct Pose {
    pub tilt: f64,
    pub az: f64,
    pub pos: V3,
}

impl Pose {
    pub fn of(g: &WallGeom) -> Option<Pose> {
        let p = g.position?;
        Some(Pose { tilt: g.tilt as f64, az: g.azimuth as f64, pos: [p.x as f64, p.y as f64, p.z as f64] })
    }
    /// rotate a local vector into world
    pub fn rot(&self, l: V3) -> V3 {
        let (t, a) = (self.tilt.to_radians(), self.az.to_radians());
        let (x1, y1, z1) = (l[0], l[1] * t.cos() - l[2] * t.sin(), l[1] * t.sin() + l[2] * t.cos());
        [x1 * a.cos() - y1 * a.sin(), x1 * a.sin() + y1 * a.cos(), z1]
    }
    /// rotate a world vector into local (inverse rotation)
    pub fn unrot(&self, w: V3) -> V3 {
        let (t, a) = (self.tilt.to_radians(), self.az.to_radians());
        let (x1, y1, z1) = (w[0] * a.cos() + w[1] * a.sin(), -w[0] * a.sin() + w[1] * a.cos(), w[2]);
        [x1, y1 * t.cos() + z1 * t.sin(), -y1 * t.sin() + z1 * t.cos()]
    }
    pub fn to_world(&self, l: V3) -> V3 {
        add(self.rot(l), self.pos)
    }
    pub fn to_local(&self, w: V3) -> V3 {
        self.unrot(sub(w, self.pos))
    }
    /// outward normal of a counter-clockwise polygon in this pose
    pub fn normal(&self) -> V3 {
        self.rot([0.0, 0.0, 1.0])
    }
}

#[derive(Clone, Debug)]
pub struct Occ {
    pub pose: Pose,
    pub poly: Vec<[f64; 2]>,
    pub id: Uuid,
    pub linked: Option<Uuid>,
}

#[derive(Clone, Copy, PartialEq, Eq, Debug)]
pub enum Hit {
    No,
    Yes,
    Ambiguous,
}

fn dist_point_seg(p: [f64; 2], a: [f64; 2], b: [f64; 2]) -> f64 {
    let (dx, dy) = (b[0] - a[0], b[1] - a[1]);
    let l2 = dx * dx + dy * dy;
    let t = if l2 == 0.0 { 0.0 } else { (((p[0] - a[0]) * dx + (p[1] - a[1]) * dy) / l2).clamp(0.0, 1.0) };
    let (cx, cy) = (a[0] + t * dx, a[1] + t * dy);
    ((p[0] - cx).powi(2) + (p[1] - cy).powi(2)).sqrt()
}

pub fn point_in_poly(p: [f64; 2], poly: &[[f64; 2]]) -> (bool, f64) {
    let n = poly.len();
    let mut inside = false;
    let mut dmin = f64::INFINITY;
    for i in 0..n {
        let (a, b) = (poly[i], poly[(i + 1) % n]);
        dmin = dmin.min(dist_point_seg(p, a, b));
        if (a[1] > p[1]) != (b[1] > p[1]) {
            let x = (b[0] - a[0]) * (p[1] - a[1]) / (b[1] - a[1]) + a[0];
            if x > p[0] {
                inside = !inside;
            }
        }
    }
    (inside, dmin)
}

/// does the ray (origin, unit dir) hit the occluder in front of the origin?
/// bands: crossing point within `edge_band` of the outline, grazing |n.d| < graze, |t| < 1e-4
pub fn ray_hits(o: &Occ, origin: V3, dir: V3, edge_band: f64, graze: f64) -> Hit {
    if o.poly.len() < 3 {
        return Hit::No;
    }
    let lo = o.pose.to_local(origin);
    let ld = o.pose.unrot(dir);
    if ld[2].abs() < 1e-9 {
        return Hit::No;
    }
    let t = -lo[2] / ld[2];
    let p = [lo[0] + t * ld[0], lo[1] + t * ld[1]];
    let (inside, d) = point_in_poly(p, &o.poly);
    let grazing = ld[2].abs() < graze;
    if grazing {
        // the crossing point itself is ill-conditioned: ambiguous if a hit is at all plausible
        let (inside_any, dd) = (inside, d);
        if t > -1e-3 && (inside_any || dd < 0.5) {
            return Hit::Ambiguous;
        }
        return Hit::No;
    }
    if t.abs() < 1e-4 {
        return if inside || d < edge_band { Hit::Ambiguous } else { Hit::No };
    }
    if t < 0.0 {
        return Hit::No;
    }
    if d < edge_band {
        return Hit::Ambiguous;
    }
    if inside {
        Hit::Yes
    } else {
        Hit::No
    }
}

fn poly64(p: &Polygon) -> Vec<[f64; 2]> {
    p.iter().map(|q| [q.x as f64, q.y as f64]).collect()
}

/// the four reveal quads of a set-back window, from the statement (gap between wall plane and window plane)
/// Wall-local coordinates of a point given in the frame windows are placed in: origin at the first vertex of the wall
/// outline, x along its first edge (the documented convention of `WallGeom::to_polygon_coords_matrix`)
pub fn poly_frame_to_local(g: &WallGeom, u: f64, v: f64, z: f64) -> V3 {
    if g.polygon.len() < 2 {
        return [u, v, z];
    }
    let (p0, p1) = (g.polygon[0], g.polygon[1]);
    let (dx, dy) = ((p1.x - p0.x) as f64, (p1.y - p0.y) as f64);
    let len = (dx * dx + dy * dy).sqrt();
    let (ex, ey) = if len > 0.0 { (dx / len, dy / len) } else { (1.0, 0.0) };
    [p0.x as f64 + ex * u - ey * v, p0.y as f64 + ey * u + ex * v, z]
}

/// inverse of `poly_frame_to_local`
pub fn local_to_poly_frame(g: &WallGeom, l: V3) -> V3 {
    if g.polygon.len() < 2 {
        return l;
    }
    let (p0, p1) = (g.polygon[0], g.polygon[1]);
    let (dx, dy) = ((p1.x - p0.x) as f64, (p1.y - p0.y) as f64);
    let len = (dx * dx + dy * dy).sqrt();
    let (ex, ey) = if len > 0.0 { (dx / len, dy / len) } else { (1.0, 0.0) };
    let (qx, qy) = (l[0] - p0.x as f64, l[1] - p0.y as f64);
    [qx * ex + qy * ey, -qx * ey + qy * ex, l[2]]
}

/// +1 for an outline listed counter-clockwise, -1 for clockwise (shoelace sum over all edges, in f64)
pub fn outline_sense(g: &WallGeom) -> f64 {
    let n = g.polygon.len();
    let a: f64 = (0..n).map(|i| g.polygon[i].x as f64 * g.polygon[(i + 1) % n].y as f64 - g.polygon[i].y as f64 * g.polygon[(i + 1) % n].x as f64).sum();
    if a < 0.0 {
        -1.0
    } else {
        1.0
    }
}

pub fn reveal_occluders(wall: &Wall, win: &Window) -> Vec<Occ> {
    reveal_occluders_in(wall, win, true)
}

/// `outline_frame` false: the window rectangle is read as wall-local coordinates (what `Window::shades_for_setback`
/// does today - the two coincide when the outline starts at the local origin with its first edge along +x)
pub fn reveal_occluders_in(wall: &Wall, win: &Window, outline_frame: bool) -> Vec<Occ> {
    let (Some(pose), Some(wp)) = (Pose::of(&wall.geometry), win.geometry.position) else { return vec![] };
    let s = win.geometry.setback as f64;
    if s.abs() < 0.01 {
        return vec![];
    }
    let (x, y, w, h) = (wp.x as f64, wp.y as f64, win.geometry.width as f64, win.geometry.height as f64);
    // express each quad in the wall's own frame rotated so that the quad lies in a local z=0 plane:
    // we keep them as generic world quads through a helper pose whose plane contains the quad.
    // Simplest: store as world-space quads with an orthonormal frame.
    let quads: [[V3; 4]; 4] = [
        [[x, y + h, 0.0], [x + w, y + h, 0.0], [x + w, y + h, -s], [x, y + h, -s]],
        [[x, y, 0.0], [x, y + h, 0.0], [x, y + h, -s], [x, y, -s]],
        [[x + w, y, 0.0], [x + w, y + h, 0.0], [x + w, y + h, -s], [x + w, y, -s]],
        [[x, y, 0.0], [x + w, y, 0.0], [x + w, y, -s], [x, y, -s]],
    ];
    quads.iter().map(|q| occ_from_world_quad(q.map(|l| pose.to_world(if outline_frame { poly_frame_to_local(&wall.geometry, l[0], l[1], l[2]) } else { l })), win.id)).collect()
}

/// Build an Occ from 4 coplanar world points: frame = (e1 along p0->p1, e2 in-plane orthogonal, n)
/// encoded as a Pose is not possible in general, so Occ for quads uses a special pose-less representation:
/// we emulate it by choosing tilt/az of the plane normal and projecting the points.
pub fn occ_from_world_quad(p: [V3; 4], linked: Uuid) -> Occ {
    let e1 = sub(p[1], p[0]);
    let e2 = sub(p[3], p[0]);
    let n = unit([e1[1] * e2[2] - e1[2] * e2[1], e1[2] * e2[0] - e1[0] * e2[2], e1[0] * e2[1] - e1[1] * e2[0]]);
    // pose with normal n: tilt = angle from +z, az: normal's horizontal projection (S=0 => (0,-1)), E+ => +x at az=90
    let tilt = n[2].clamp(-1.0, 1.0).acos().to_degrees();
    let az = if (n[0].abs() + n[1].abs()) < 1e-12 { 0.0 } else { n[0].atan2(-n[1]).to_degrees() };
    let pose = Pose { tilt, az, pos: p[0] };
    let poly = p.iter().map(|q| { let l = pose.to_local(*q); [l[0], l[1]] }).collect();
    Occ { pose, poly, id: linked, linked: Some(linked) }
}

/// occluder set per the statement: exterior/adiabatic walls and shades with a position (+ reveals of `for_window`)
pub fn occluders(m: &Model, own_wall: Uuid, for_window: &Window) -> Vec<Occ> {
    occluders_in(m, own_wall, for_window, true)
}

pub fn occluders_in(m: &Model, own_wall: Uuid, for_window: &Window, reveals_in_outline_frame: bool) -> Vec<Occ> {
    let mut v = vec![];
    for w in &m.walls {
        if w.id == own_wall || !(w.bounds == BoundaryType::EXTERIOR || w.bounds == BoundaryType::ADIABATIC) || w.geometry.polygon.is_empty() {
            continue;
        }
        if let Some(pose) = Pose::of(&w.geometry) {
            v.push(Occ { pose, poly: poly64(&w.geometry.polygon), id: w.id, linked: None });
        }
    }
    for s in &m.shades {
        if s.geometry.polygon.is_empty() {
            continue;
        }
        if let Some(pose) = Pose::of(&s.geometry) {
            v.push(Occ { pose, poly: poly64(&s.geometry.polygon), id: s.id, linked: None });
        }
    }
    if let Some(w) = m.walls.iter().find(|w| w.id == own_wall) {
        v.extend(reveal_occluders_in(w, for_window, reveals_in_outline_frame));
    }
    v
}

/// the frame windows are placed in coincides with the wall-local frame (outline starts at the origin, first edge along +x)
pub fn outline_frame_is_local(g: &WallGeom) -> bool {
    if g.polygon.len() < 2 {
        return true;
    }
    let (p0, p1) = (g.polygon[0], g.polygon[1]);
    p0.x.abs() < 1e-6 && p0.y.abs() < 1e-6 && (p1.y - p0.y).abs() < 1e-6 && p1.x > p0.x
}
