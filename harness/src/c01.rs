//! C01 — the export tool writes exactly the model JSON to stdout (E5 process runs + E2 stdout-silence monitor)

use crate::common::*;
use crate::corpus;
use crate::sup;
use bemodel::Model;
use serde_json::{json, Value};
use std::convert::TryFrom;
use std::process::{Command, Stdio};
use std::sync::Mutex;

pub fn repo_target_dir() -> String {
    format!("{}/.cache/target-repo", verif_dir())
}

/// (re)build the repository's own binaries from the current working tree, WITHOUT the verification cfg
pub fn build_repo_bins() -> Result<(), String> {
    let out = Command::new("cargo")
        .args(["build", "--offline", "-p", "hulc2model", "-p", "bemodel", "--bins"])
        .current_dir(repo_dir())
        .env("CARGO_TARGET_DIR", repo_target_dir())
        .env("CARGO_NET_OFFLINE", "true")
        .env_remove("RUSTFLAGS")
        .output()
        .map_err(|e| e.to_string())?;
    if !out.status.success() {
        return Err(String::from_utf8_lossy(&out.stderr).chars().rev().take(1500).collect::<String>().chars().rev().collect());
    }
    Ok(())
}

pub fn bin(name: &str) -> String {
    format!("{}/debug/{}", repo_target_dir(), name)
}

pub struct ProcOut {
    pub code: Option<i32>,
    pub stdout: Vec<u8>,
    pub timed_out: bool,
}

pub fn run_proc(exe: &str, args: &[&str], timeout_s: u64) -> ProcOut {
    run_proc_in(exe, args, timeout_s, None, None)
}

/// the same with a working directory and a RUST_LOG setting
pub fn run_proc_in(exe: &str, args: &[&str], timeout_s: u64, cwd: Option<&str>, rust_log: Option<&str>) -> ProcOut {
    let mut cmd = Command::new(exe);
    cmd.args(args).stdin(Stdio::null()).stdout(Stdio::piped()).stderr(Stdio::null()).env_remove("RUST_LOG");
    if let Some(d) = cwd {
        cmd.current_dir(d);
    }
    if let Some(l) = rust_log {
        cmd.env("RUST_LOG", l);
    }
    let mut child = cmd.spawn().expect("spawn");
    let mut so = child.stdout.take().unwrap();
    let h = std::thread::spawn(move || {
        let mut b = vec![];
        let _ = std::io::Read::read_to_end(&mut so, &mut b);
        b
    });
    let t0 = std::time::Instant::now();
    let mut timed_out = false;
    let code = loop {
        match child.try_wait() {
            Ok(Some(st)) => break st.code(),
            Ok(None) => {
                if t0.elapsed().as_secs() > timeout_s {
                    let _ = child.kill();
                    let _ = child.wait();
                    timed_out = true;
                    break None;
                }
                std::thread::sleep(std::time::Duration::from_millis(5));
            }
            Err(_) => break None,
        }
    };
    ProcOut { code, stdout: h.join().unwrap_or_default(), timed_out }
}

fn lib_cases() -> Vec<(String, bool)> {
    let mut v = vec![];
    for d in all_project_dirs() {
        v.push((d.clone(), false));
        v.push((d, true));
    }
    v
}

pub fn synthetic_root() -> String {
    format!("{}/.cache/c01-synthetic", verif_dir())
}

fn all_project_dirs() -> Vec<String> {
    let mut v = corpus::project_dirs();
    if let Ok(rd) = std::fs::read_dir(synthetic_root()) {
        let mut s: Vec<String> = rd.filter_map(|e| e.ok()).filter(|e| e.path().is_dir()).map(|e| e.path().to_string_lossy().to_string()).collect();
        s.sort();
        v.extend(s);
    }
    v
}

/// worker: in-process library conversion (fd 1 monitored by the worker loop)
pub fn worker(_space: &str, idx: u64) -> Value {
    let cases = lib_cases();
    let (dir, extra) = &cases[idx as usize];
    // the library side of this directory is computed in a process that has converted its sibling before (the same
    // names with other contents): the model the library yields does not depend on that
    if dir.ends_with("same-names-other-contents") {
        let _ = catch(std::panic::AssertUnwindSafe(|| hulc2model::collect_hulc_data(format!("{}/gen01", synthetic_root()), *extra, *extra)));
    }
    match catch(std::panic::AssertUnwindSafe(|| hulc2model::collect_hulc_data(dir, *extra, *extra))) {
        Ok(Ok(m)) => json!({"verdict": "ok", "json": m.as_json().unwrap_or_default(), "debug": format!("{:?}", m)}),
        Ok(Err(e)) => json!({"verdict": "err", "msg": format!("{}", e)}),
        Err(p) => json!({"verdict": "panic", "panic": p, "exit_after": true}),
    }
}

pub fn run(ctx: &Ctx) -> i32 {
    if let Err(e) = build_repo_bins() {
        ctx.machinery_error(format!("cannot build the repository binaries: {}", e));
        return ctx.finish("exploration", "build failed", false, json!({}));
    }
    // synthetic project directories from the generator (written once per run)
    let _ = std::fs::remove_dir_all(synthetic_root());
    crate::projgen::write_synthetic_dirs(&synthetic_root(), ctx.tier);
    let cases = lib_cases();
    // 1. library results in monitored worker processes
    let lib: Mutex<Vec<Option<Value>>> = Mutex::new(vec![None; cases.len()]);
    let idxs: Vec<u64> = (0..cases.len() as u64).collect();
    sup::supervise("c01lib", &idxs, std::time::Duration::from_secs(120), &|idx, v| {
        lib.lock().unwrap()[idx as usize] = Some(v);
        true
    });
    let lib = lib.into_inner().unwrap();
    let mut convertible = 0u64;
    let convertible_ctr = std::sync::atomic::AtomicU64::new(0);
    par_for(cases.len() as u64, |ii| {
        let i = ii as usize;
        let (dir, extra) = &cases[i];
        let l = lib[i].clone().unwrap_or(json!({"verdict": "missing"}));
        let args: Vec<&str> = if *extra { vec!["--use-extra", dir.as_str()] } else { vec![dir.as_str()] };
        let case = || json!({"tool": "hulc2model", "dir": dir, "use_extra": extra, "cmd": format!("hulc2model {}", args.join(" "))});
        ctx.eval(2);
        // stdout-silence monitor on the library call
        if l["stdout_bytes"].as_u64().unwrap_or(0) > 0 {
            ctx.violation(
                &format!("library-writes-to-stdout:{}", if *extra { "use-extra" } else { "default" }),
                &format!("collect_hulc_data wrote {} bytes to standard output (starts: {:?})", l["stdout_bytes"], l["stdout_excerpt"].as_str().unwrap_or("").chars().take(60).collect::<String>()),
                case(),
            );
        }
        let p = run_proc(&bin("hulc2model"), &args, 120);
        if p.timed_out {
            ctx.violation("hulc2model:timeout", "the export tool did not finish in 120 s", case());
            return;
        }
        let out = String::from_utf8_lossy(&p.stdout).to_string();
        match l["verdict"].as_str() {
            Some("ok") => {
                convertible_ctr.fetch_add(1, std::sync::atomic::Ordering::Relaxed);
                ctx.nontriv(1);
                if p.code != Some(0) {
                    ctx.violation("hulc2model:exit-status", &format!("exit status {:?} for a convertible project", p.code), case());
                    return;
                }
                match serde_json::from_str::<Value>(&out) {
                    Err(e) => {
                        ctx.violation("hulc2model:stdout-not-one-json-document", &format!("standard output is not exactly one JSON document ({}); it starts with {:?}", e, out.chars().take(50).collect::<String>()), case());
                    }
                    Ok(_) => match Model::from_json(&out) {
                        Err(e) => ctx.violation("hulc2model:stdout-not-a-model", &format!("{}", e), case()),
                        Ok(m) => {
                            if m.as_json().unwrap_or_default() != l["json"].as_str().unwrap_or("") {
                                ctx.violation("hulc2model:model-differs-from-library", "the model on standard output differs from hulc2model::collect_hulc_data for the same directory", case());
                            } else if l["debug"].as_str().map_or(false, |d| d != format!("{:?}", m)) {
                                // the document loads, but not as the model the library holds in memory (something the
                                // serialiser leaves out)
                                let (a, b) = (format!("{:?}", m), l["debug"].as_str().unwrap_or("").to_string());
                                let pos = a.bytes().zip(b.bytes()).position(|(x, y)| x != y).unwrap_or(a.len().min(b.len()));
                                let at = |t: &str| t.chars().skip(pos.saturating_sub(60)).take(160).collect::<String>();
                                ctx.violation("hulc2model:loaded-model-differs-from-library-model", &format!("standard output loads as a model that differs from the one the library yields: ...{}... vs library ...{}...", at(&a), at(&b)), case());
                            }
                        }
                    },
                }
                ctx.outcome(&hash64(&out.len()));
                // the same directory named in other ways and with logging switched on: same single document
                if !*extra {
                    let (parent, name) = dir.rsplit_once('/').unwrap_or((".", dir.as_str()));
                    let slash = format!("{}/", dir);
                    let rel = format!("./{}", name);
                    let variants: Vec<(&str, Vec<&str>, Option<&str>, Option<&str>)> = vec![
                        ("trailing slash", vec![slash.as_str()], None, None),
                        ("relative path", vec![rel.as_str()], Some(parent), None),
                        ("RUST_LOG=trace", vec![dir.as_str()], None, Some("trace")),
                    ];
                    for (what, a, cwd, log) in variants {
                        let q = run_proc_in(&bin("hulc2model"), &a, 120, cwd, log);
                        ctx.eval(1);
                        let o = String::from_utf8_lossy(&q.stdout).to_string();
                        let same = q.code == Some(0) && Model::from_json(&o).ok().and_then(|m| m.as_json().ok()).as_deref() == l["json"].as_str();
                        if !same {
                            ctx.violation(&format!("hulc2model:variant:{}", what.split(' ').next().unwrap_or("")), &format!("{}: exit status {:?}, standard output ({} bytes) is not the one model document of the plain run", what, q.code, o.len()), json!({"tool": "hulc2model", "dir": dir, "variant": what}));
                        }
                    }
                }
            }
            Some("err") | Some("panic") => {
                if p.code == Some(0) {
                    ctx.violation("hulc2model:exit-0-on-failure", &format!("exit status 0 although the library fails: {}", l), case());
                }
                if out.contains('{') {
                    ctx.violation("hulc2model:json-on-failure", "JSON-looking output on standard output although the conversion failed", case());
                }
                ctx.outcome(&"fail");
            }
            other => ctx.machinery_error(format!("library verdict {:?} for {}", other, dir)),
        }
        // thor -o (default flags only)
        if !*extra {
            if let Some(f) = corpus::ctehexml_path(dir) {
                let outp = format!("{}/.cache/c01-thor-{}.json", verif_dir(), i);
                // the output path already exists and holds more bytes than any model (an earlier, larger export)
                let _ = std::fs::write(&outp, format!("{{\"earlier\": \"{}\"}}", "x".repeat(3_000_000)));
                let p = run_proc(&bin("thor"), &[f.as_str(), "-o", outp.as_str()], 120);
                let case = || json!({"tool": "thor", "file": f, "cmd": format!("thor {} -o OUT", f)});
                ctx.eval(1);
                let expect = catch(std::panic::AssertUnwindSafe(|| hulc::ctehexml::parse_with_catalog_from_path(&f).ok().and_then(|d| Model::try_from(&d).ok()).and_then(|m| m.as_json().ok())));
                match expect {
                    Ok(Some(j)) => {
                        let got = std::fs::read_to_string(&outp).unwrap_or_default();
                        if p.code != Some(0) {
                            ctx.violation("thor:exit-status", &format!("exit status {:?}", p.code), case());
                        } else if got != j && Model::from_json(&got).ok().and_then(|m| m.as_json().ok()).as_deref() != Some(j.as_str()) {
                            ctx.violation("thor:output-file-differs", "the file written with -o is not (one JSON document that loads as) the library's model", case());
                        }
                        if !p.stdout.is_empty() {
                            ctx.violation("thor:stdout-not-empty", &format!("thor wrote {} bytes to standard output without -v", p.stdout.len()), case());
                        }
                    }
                    _ => {
                        if p.code == Some(0) {
                            ctx.violation("thor:exit-0-on-failure", "exit status 0 although the conversion fails", case());
                        }
                    }
                }
                let _ = std::fs::remove_file(&outp);
            }
        }
    });
    convertible += convertible_ctr.load(std::sync::atomic::Ordering::Relaxed);
    // 1b. what the tool prints must load back: every scalar numeric attribute of the smallest shipped project set to 0
    // (no occupants, no thickness, no power ...), converted in this process; wherever the model's own JSON does not load
    // back as the same model, the tool is run on that project and judged like any other project
    {
        let mut sized: Vec<String> = corpus::project_dirs().iter().filter_map(|d| corpus::ctehexml_path(d)).collect();
        sized.sort_by_key(|f| std::fs::metadata(f).map(|m| m.len()).unwrap_or(0));
        let src = sized[0].clone();
        let text = corpus::read_utf8(&src);
        let lines: Vec<&str> = text.split('\n').collect();
        let a = lines.iter().position(|l| l.contains("<EntradaGraficaLIDER>")).unwrap_or(0);
        let b = lines.iter().position(|l| l.contains("</EntradaGraficaLIDER>")).unwrap_or(lines.len());
        let cands: Vec<usize> = (a..b).filter(|i| lines[*i].split_once('=').map_or(false, |(_, v)| v.trim().parse::<f64>().map_or(false, |x| x != 0.0))).collect();
        let bad: Mutex<Vec<(usize, String)>> = Mutex::new(vec![]);
        // (and with its sign changed: where the converted model makes the checker speak - a negative length, say - the
        // model is still the model, and both tools are run and judged)
        let warned: Mutex<Vec<(usize, String)>> = Mutex::new(vec![]);
        par_for(2 * cands.len() as u64, |k| {
            let i = cands[(k / 2) as usize];
            let (key, val) = lines[i].split_once('=').unwrap();
            let mut ls: Vec<String> = lines.iter().map(|l| l.to_string()).collect();
            ls[i] = if k % 2 == 0 { format!("{}= 0", key) } else { format!("{}= {}", key, -val.trim().parse::<f64>().unwrap_or(1.0)) };
            let t = ls.join("\n");
            if let corpus::Outcome::Ok(m) = corpus::convert_text(&t, false) {
                let j = m.as_json().unwrap_or_default();
                let back = Model::from_json(&j).ok().and_then(|m2| m2.as_json().ok());
                if back.as_deref() != Some(j.as_str()) {
                    if k % 2 == 0 {
                        bad.lock().unwrap().push((i, t));
                    }
                } else if !bemodel::check(&m).is_empty() {
                    warned.lock().unwrap().push((i, t));
                }
            }
        });
        ctx.eval(2 * cands.len() as u64);
        let mut warned = warned.into_inner().unwrap();
        warned.sort_by_key(|w| w.0);
        warned.dedup_by_key(|w| w.0);
        ctx.note("attributes_whose_change_makes_the_checker_speak", json!({"count": warned.len(), "tools_run_on": warned.len().min(6)}));
        for (i, t) in warned.iter().take(6) {
            let d = format!("{}/.cache/c01-warned/line{}", verif_dir(), i);
            let _ = std::fs::remove_dir_all(&d);
            std::fs::create_dir_all(&d).unwrap();
            let f = format!("{}/p.ctehexml", d);
            std::fs::write(&f, t).unwrap();
            let lib = catch(std::panic::AssertUnwindSafe(|| hulc2model::collect_hulc_data(&d, false, false).ok().and_then(|m| m.as_json().ok()))).ok().flatten();
            let case = |tool: &str| json!({"tool": tool, "project": src, "line": i + 1, "attribute": lines[*i].trim(), "changed": "sign or zero; the converted model has checker warnings"});
            if let Some(lib) = lib {
                ctx.eval(2);
                ctx.nontriv(1);
                let p = run_proc(&bin("hulc2model"), &[d.as_str()], 120);
                let out = String::from_utf8_lossy(&p.stdout).to_string();
                if p.code != Some(0) || Model::from_json(&out).ok().and_then(|m| m.as_json().ok()).as_deref() != Some(lib.as_str()) {
                    ctx.violation("hulc2model:model-with-checker-warnings-not-exported", &format!("line {} ({}) changed: the library converts the project (the checker has remarks on the model), the tool exits {:?} and its output is not that model", i + 1, lines[*i].trim(), p.code), case("hulc2model"));
                }
                let outp = format!("{}/out.json", d);
                let q = run_proc(&bin("thor"), &[f.as_str(), "-o", outp.as_str()], 120);
                let got = std::fs::read_to_string(&outp).unwrap_or_default();
                // (thor exports the plain conversion, without the pass over HULC's result files)
                let plain = catch(std::panic::AssertUnwindSafe(|| hulc::ctehexml::parse_with_catalog_from_path(&f).ok().and_then(|d| Model::try_from(&d).ok()).and_then(|m| m.as_json().ok()))).ok().flatten();
                if plain.is_some() && (q.code != Some(0) || Model::from_json(&got).ok().and_then(|m| m.as_json().ok()) != plain) {
                    ctx.violation("thor:model-with-checker-warnings-not-exported", &format!("line {} ({}) changed: the library converts the project (the checker has remarks on the model), thor exits {:?} and the file named with -o does not hold that model", i + 1, lines[*i].trim(), q.code), case("thor"));
                }
            }
            let _ = std::fs::remove_dir_all(&d);
        }
        let bad = bad.into_inner().unwrap();
        ctx.note("zeroed_attributes", json!({"project": src, "attributes": cands.len(), "models_whose_json_does_not_load_back": bad.len()}));
        for (i, t) in bad.iter().take(8) {
            let d = format!("{}/.cache/c01-zeroed/line{}", verif_dir(), i);
            let _ = std::fs::remove_dir_all(&d);
            std::fs::create_dir_all(&d).unwrap();
            std::fs::write(format!("{}/p.ctehexml", d), t).unwrap();
            let p = run_proc(&bin("hulc2model"), &[d.as_str()], 120);
            let out = String::from_utf8_lossy(&p.stdout).to_string();
            let lib = catch(std::panic::AssertUnwindSafe(|| hulc2model::collect_hulc_data(&d, false, false).ok().and_then(|m| m.as_json().ok()))).ok().flatten();
            ctx.eval(1);
            let loads_as_lib = Model::from_json(&out).ok().and_then(|m| m.as_json().ok());
            if p.code == Some(0) && lib.is_some() && loads_as_lib != lib {
                ctx.violation("hulc2model:stdout-not-a-model", &format!("line {} ({}) set to 0: the tool exits 0 but its standard output does not load as the model the library yields", i + 1, lines[*i].trim()), json!({"tool": "hulc2model", "project": src, "line": i + 1, "attribute": lines[*i].trim(), "set_to": 0}));
            }
            let _ = std::fs::remove_dir_all(&d);
        }
    }
    // 2. directories that hold no project
    let base = format!("{}/.cache/c01-dirs", verif_dir());
    let _ = std::fs::remove_dir_all(&base);
    std::fs::create_dir_all(format!("{}/empty", base)).unwrap();
    std::fs::create_dir_all(format!("{}/onlytxt", base)).unwrap();
    std::fs::write(format!("{}/onlytxt/notes.txt", base), "{ \"not\": \"a project\" }").unwrap();
    std::fs::write(format!("{}/afile", base), "x").unwrap();
    std::fs::create_dir_all(format!("{}/broken", base)).unwrap();
    std::fs::write(format!("{}/broken/p.ctehexml", base), "<CTE-HE-XML><DatosGenerales>").unwrap();
    // a project file that is not valid UTF-8 (saved as ISO-8859-1), and one that is a directory
    std::fs::create_dir_all(format!("{}/latin1", base)).unwrap();
    std::fs::write(format!("{}/latin1/p.ctehexml", base), b"<CTE-HE-XML><DatosGenerales><nomPro>Edificaci\xf3n</nomPro></DatosGenerales></CTE-HE-XML>".to_vec()).unwrap();
    std::fs::create_dir_all(format!("{}/dirfile/p.ctehexml", base)).unwrap();
    for d in ["empty", "onlytxt", "afile", "missing", "broken", "latin1", "dirfile"] {
        for extra in [false, true] {
            let dir = format!("{}/{}", base, d);
            let args: Vec<&str> = if extra { vec!["--use-extra", dir.as_str()] } else { vec![dir.as_str()] };
            let p = run_proc(&bin("hulc2model"), &args, 60);
            ctx.eval(1);
            ctx.nontriv(1);
            let out = String::from_utf8_lossy(&p.stdout).to_string();
            let case = || json!({"tool": "hulc2model", "dir_kind": d, "use_extra": extra});
            if p.code == Some(0) || p.timed_out {
                ctx.violation("hulc2model:exit-0-without-project", &format!("exit status {:?} for a directory without project ({})", p.code, d), case());
            }
            if out.contains('{') {
                ctx.violation("hulc2model:json-without-project", &format!("JSON-looking output for a directory without project ({})", d), case());
            }
            ctx.outcome(&"noproject");
        }
    }
    let _ = std::fs::remove_dir_all(&base);
    ctx.note("runs", json!({"project_dirs": cases.len() / 2, "shipped": corpus::project_dirs().len(), "synthetic": cases.len() / 2 - corpus::project_dirs().len(), "convertible_dir_x_flag": convertible}));
    ctx.sample(json!({"tool": "hulc2model", "cmd": format!("hulc2model --use-extra {}", cases[0].0)}));
    ctx.sample(json!({"tool": "thor", "cmd": format!("thor {}/cubo/cubo.ctehexml -o OUT", corpus::tests_dir())}));
    // 3. thorough: stdout-silence monitor over "remove one block" mutants of every shipped .ctehexml (via the C19 worker)
    // 3. stdout-silence monitor over grey-box value substitutions in the XML part (every value that equals a string
    //    literal of the XML-side parsers is replaced by every other literal of the same source file; quick: two projects)
    //    and, in thorough, over every 'remove one block' mutant of every shipped .ctehexml (via the C19 worker)
    {
        let n = crate::c19::monitor_sweep(ctx);
        ctx.note("stdout_monitor_sweep", json!({"library_calls_monitored": n}));
    }
    ctx.finish(
        "exploration",
        "every project directory (12 shipped incl. VyP and GT system sections + synthetic directories written by the generator, with and without KyG/tbl files) x {default, --use-extra}: hulc2model is run as a process (stdout captured, exit status) and compared with hulc2model::collect_hulc_data computed in a monitored worker process (any byte on fd 1 during the library call is a violation); stdout must parse as a whole as one JSON document and load as a model whose re-serialisation is byte-identical to the library's and whose Debug text equals that of the library's in-memory model, also when the directory is named with a trailing slash or relative to the working directory, when RUST_LOG=trace is set, when the directory name holds blanks and non-ASCII letters, and when only one of the two result files exists; thor FILE -o OUT (OUT pre-existing and longer than any model) must leave exactly the library model JSON in the file and nothing on stdout; every scalar numeric attribute of the smallest shipped project set to 0 and to its negative (library conversion in-process; where the model's JSON does not load back, or where the checker has remarks on the converted model, the tools themselves are run and judged); 7 kinds of non-project directory (empty, only a text file, a plain file, missing, truncated XML, project file in ISO-8859-1, project file that is a directory) x 2 flag sets must give a non-zero exit status and no JSON; the stdout monitor also runs over grey-box value substitutions (XML values replaced by the string literals the parser source branches on; 2 projects quick / all thorough) and, in thorough, over every 'remove one block' mutant of every shipped .ctehexml; non-trivial = convertible project run or non-project run",
        true,
        json!({}),
    )
}
