//! C12 — obstruction factors bounded, monotone, ~1 unobstructed (E1 scenes x brute-force f64 ray casting)

use crate::common::*;
use crate::gen::*;
use nalgebra::point;
use crate::geo::{self, Hit, Occ, Pose};
use bemodel::climatedata::{CLIMATEMETADATA, JULYRADDATA};
use bemodel::*;
use climate::{nday_from_md, radiation_for_surface, SolarRadiation};
use serde_json::{json, Value};
use std::collections::HashSet;

const AZS: [f32; 8] = [0.0, 45.0, 90.0, 135.0, 180.0, -135.0, -90.0, -45.0];
const TILTS: [f32; 3] = [90.0, 45.0, 0.0];
const OBST: [&str; 12] = ["none", "facing-1m", "facing-5m", "facing-20m", "overhang", "side-fin", "half-cover", "behind", "below", "big-overhang", "facing-1m-five-corners", "facing-1m-sloped-top"];
const FILLERS: [usize; 5] = [0, 29, 30, 31, 60];

/// shade given in the window wall's local frame: a plane parallel to the wall (kind 0) at local z = d,
/// or an overhang-like plane (kind 1: local y = const, extends in +z), both expressible as Rz(az)Rx(tilt)
fn local_shade(name: &str, wallg: &WallGeom, kind: usize, origin_local: [f32; 3], w: f32, h: f32) -> Shade {
    let pose = Pose::of(wallg).unwrap();
    let p = pose.to_world([origin_local[0] as f64, origin_local[1] as f64, origin_local[2] as f64]);
    let tilt = match kind {
        0 => wallg.tilt,
        _ => wallg.tilt + 90.0,
    };
    Shade { id: uid(name), name: name.into(), geometry: geom(tilt, wallg.azimuth, Some([p[0] as f32, p[1] as f32, p[2] as f32]), rect(w, h)), ..Default::default() }
}

fn obstacle(kind: &str, wallg: &WallGeom) -> Option<Shade> {
    // window occupies local x in [1.2, 2.7], y in [0.9, 2.1]
    match kind {
        "none" => None,
        "facing-1m" => Some(local_shade("ob", wallg, 0, [-2.0, -1.0, 1.0], 8.0, 6.0)),
        "facing-5m" => Some(local_shade("ob", wallg, 0, [-2.0, -1.0, 5.0], 8.0, 6.0)),
        "facing-1m-sloped-top" => {
            // the screen at 1 m with a sloped top: four corners, level base, upright second side, the fourth corner lower
            let mut s = local_shade("ob", wallg, 0, [-2.0, -1.0, 1.0], 8.0, 6.0);
            s.geometry.polygon = vec![point![0.0, 0.0], point![8.0, 0.0], point![8.0, 6.0], point![0.0, 2.2]];
            Some(s)
        }
        "facing-1m-five-corners" => {
            // the screen at 1 m, its outline written with a corner in the middle of its first side
            let mut s = local_shade("ob", wallg, 0, [-2.0, -1.0, 1.0], 8.0, 6.0);
            s.geometry.polygon = vec![point![0.0, 0.0], point![4.0, 0.0], point![8.0, 0.0], point![8.0, 6.0], point![0.0, 6.0]];
            Some(s)
        }
        "facing-20m" => Some(local_shade("ob", wallg, 0, [-10.0, -5.0, 20.0], 24.0, 16.0)),
        "overhang" => Some(local_shade("ob", wallg, 1, [0.7, 2.3, 0.0], 2.5, 1.0)),
        "big-overhang" => Some(local_shade("ob", wallg, 1, [-3.0, 2.15, 0.0], 10.0, 6.0)),
        "half-cover" => Some(local_shade("ob", wallg, 0, [0.0, 0.0, 0.5], 1.95, 3.0)),
        "behind" => Some(local_shade("ob", wallg, 0, [-2.0, -1.0, -3.0], 8.0, 6.0)),
        "below" => Some(local_shade("ob", wallg, 1, [-3.0, -0.5, 0.0], 10.0, 4.0)),
        "side-fin" => {
            // only meaningful as a vertical plane: tilt 90, azimuth az+90, attached at the window's left edge, extending outwards
            let pose = Pose::of(wallg).unwrap();
            let p = pose.to_world([1.0, 0.5, 0.0]);
            let n = pose.normal();
            // direction "outwards" projected to horizontal; for horizontal walls fall back to a facing plane
            if (n[0].abs() + n[1].abs()) < 1e-6 {
                return Some(local_shade("ob", wallg, 0, [0.0, 0.0, 0.7], 1.0, 3.0));
            }
            // a vertical rectangle containing the outward horizontal direction: azimuth of its normal = az + 90
            Some(Shade { id: uid("ob"), name: "ob".into(), geometry: geom(90.0, wallg.azimuth + 90.0, Some([p[0] as f32, p[1] as f32, p[2] as f32]), vec![point![0.0, 0.0], point![-1.5, 0.0], point![-1.5, 2.5], point![0.0, 2.5]]), ..Default::default() })
        }
        _ => None,
    }
}

fn scene(zone_name: &str, az: f32, tilt: f32, setback: f32, obst: &str, fillers: usize, positions: usize) -> Model {
    let mut m = model_with_meta(meta(zone(zone_name)));
    let wc = std_cons(&mut m);
    let winc = std_wincons(&mut m);
    m.spaces.push(space("S1", SpaceType::CONDITIONED, true, 3.0));
    let wg = geom(tilt, az, Some([3.0, -2.0, 1.5]), rect(4.0, 3.0));
    let mut w = wall("W0", BoundaryType::EXTERIOR, wc, uid("S1"), None, wg.clone());
    let mut v = window("V0", winc, uid("W0"), Some([1.2, 0.9]), 1.5, 1.2, setback);
    // every other scene lists the same wall outline from its third corner: the frame windows are placed in (origin at
    // the first vertex, x along the first edge) is then turned by 180 degrees, and the same physical window has the
    // coordinates (4 - 1.2 - 1.5, 3 - 0.9 - 1.2) in it
    if fillers % 2 == 1 || (obst.len() + positions) % 2 == 1 {
        w.geometry.polygon = vec![point![4.0, 3.0], point![0.0, 3.0], point![0.0, 0.0], point![4.0, 0.0]];
        v.geometry.position = Some(point![4.0 - 1.2 - 1.5, 3.0 - 0.9 - 1.2]);
    }
    if let Some(s) = obstacle(obst, &wg) {
        m.shades.push(s);
    }
    for i in 0..fillers {
        // far away, behind and below: can never hide the window
        let p = Pose::of(&wg).unwrap().to_world([(i % 10) as f64 * 3.0 - 15.0, -30.0 - (i / 10) as f64 * 3.0, -200.0]);
        m.shades.push(Shade { id: uid(&format!("fill{i}")), name: format!("fill{i}"), geometry: geom(90.0, (i * 37) as f32, Some([p[0] as f32, p[1] as f32, p[2] as f32]), rect(1.0, 1.0)), ..Default::default() });
    }
    match positions {
        1 => v.geometry.position = None,
        2 => w.geometry.position = None,
        _ => {}
    }
    m.walls.push(w);
    m.windows.push(v);
    m
}

pub struct RefF {
    pub lo: f64,
    pub hi: f64,
    pub unobstructed: bool,   // no occluder can be hit at any hour (all rays definitely free when the sun is in front)
    pub hidden_always: bool,  // every ray blocked at every hour with the sun in front
    pub diffuse_share: f64,
    pub ambiguous_rays: u64,
}

/// reference F_sh,obst for one window from the statement (None: no value expected)
pub fn reference_f(m: &Model, win: &Window) -> Option<RefF> {
    reference_f_in(m, win, true)
}

pub fn reference_f_in(m: &Model, win: &Window, reveals_in_outline_frame: bool) -> Option<RefF> {
    let wall = m.walls.iter().find(|w| w.id == win.wall)?;
    let zone = m.meta.climate;
    let latitude = CLIMATEMETADATA.lock().unwrap().get(&zone)?.latitude;
    let rad: Vec<climatedata::RadData> = JULYRADDATA.lock().unwrap().get(&zone)?.clone();
    let origins = m.ray_origins_for_window(win);
    let wall_pose = Pose::of(&wall.geometry);
    let occs: Vec<Occ> = geo::occluders_in(m, wall.id, win, reveals_in_outline_frame);
    let (mut lo_sum, mut hi_sum, mut dshare) = (0.0, 0.0, 0.0);
    let mut unob = true;
    let mut hidden = true;
    let mut amb = 0u64;
    for d in &rad {
        let r = radiation_for_surface(nday_from_md(d.month, d.day), d.hour, SolarRadiation { dir: d.dir, dif: d.dif }, latitude, wall.geometry.tilt, wall.geometry.azimuth, 0.2);
        let (dir, dif) = (r.dir as f64, r.dif as f64);
        let (az, alt) = ((d.azimuth as f64).to_radians(), (d.altitude as f64).to_radians());
        let sun = geo::unit([alt.cos() * az.sin(), -alt.cos() * az.cos(), alt.sin()]);
        let (flo, fhi) = if wall_pose.is_none() || origins.is_empty() {
            hidden = false;
            (1.0, 1.0)
        } else {
            let n = {
                // outward normal: the listing sense of the outline decides the sign (own shoelace sum)
                wall_pose.unwrap().rot([0.0, 0.0, geo::outline_sense(&wall.geometry)])
            };
            let c = geo::dot(n, sun);
            if c < 0.01 - 0.02 {
                (0.0, 0.0)
            } else {
                let (mut free_lo, mut free_hi) = (0u32, 0u32);
                for o in &origins {
                    let org = [o.x as f64, o.y as f64, o.z as f64];
                    let mut any_yes = false;
                    let mut any_amb = false;
                    for oc in &occs {
                        match geo::ray_hits(oc, org, sun, 1e-3, 0.02) {
                            Hit::Yes => {
                                any_yes = true;
                                break;
                            }
                            Hit::Ambiguous => any_amb = true,
                            Hit::No => {}
                        }
                    }
                    if any_yes {
                        // blocked
                    } else if any_amb {
                        free_hi += 1;
                        amb += 1;
                    } else {
                        free_lo += 1;
                        free_hi += 1;
                    }
                }
                let n = origins.len() as f64;
                let (l, h) = (free_lo as f64 / n, free_hi as f64 / n);
                if l < 1.0 {
                    unob = false;
                }
                if h > 0.0 {
                    hidden = false;
                }
                if c < 0.01 + 0.02 {
                    (0.0, h)
                } else {
                    (l, h)
                }
            }
        };
        let tot = dir + dif;
        lo_sum += (flo * dir + dif) / tot;
        hi_sum += (fhi * dir + dif) / tot;
        dshare += dif / tot;
    }
    let n = rad.len() as f64;
    Some(RefF { lo: lo_sum / n, hi: hi_sum / n, unobstructed: unob, hidden_always: hidden, diffuse_share: dshare / n, ambiguous_rays: amb })
}

/// sample points lie on the window rectangle in the set-back plane
fn check_sample_points(ctx: &Ctx, m: &Model, win: &Window, case: &dyn Fn() -> Value) {
    let Some(wall) = m.walls.iter().find(|w| w.id == win.wall) else { return };
    let (Some(pose), Some(wp)) = (Pose::of(&wall.geometry), win.geometry.position) else { return };
    let pts = m.ray_origins_for_window(win);
    if pts.is_empty() {
        ctx.violation("sample-points:none", "no sample points for a window with complete geometry", case());
        return;
    }
    let (mut cx, mut cy) = (0.0, 0.0);
    for p in &pts {
        // the window is placed in the frame of the wall outline (origin at its first vertex, x along its first edge)
        let l = geo::local_to_poly_frame(&wall.geometry, pose.to_local([p.x as f64, p.y as f64, p.z as f64]));
        let (x0, y0) = (wp.x as f64, wp.y as f64);
        if l[0] < x0 - 1e-3 || l[0] > x0 + win.geometry.width as f64 + 1e-3 || l[1] < y0 - 1e-3 || l[1] > y0 + win.geometry.height as f64 + 1e-3 || (l[2] + win.geometry.setback as f64).abs() > 2e-3 {
            ctx.violation("sample-points:outside-window-plane", &format!("sample point at {:?} (frame of the wall outline) is not on the window rectangle in the set-back plane (z=-{})", l, win.geometry.setback), case());
            return;
        }
        cx += l[0];
        cy += l[1];
    }
    let n = pts.len() as f64;
    if (cx / n - (wp.x as f64 + win.geometry.width as f64 / 2.0)).abs() > 0.02 || (cy / n - (wp.y as f64 + win.geometry.height as f64 / 2.0)).abs() > 0.02 {
        ctx.violation("sample-points:not-centred", "sample points are not spread evenly over the window", case());
    }
}

fn code_f(m: &Model) -> Result<std::collections::BTreeMap<Uuid, f32>, String> {
    catch(std::panic::AssertUnwindSafe(|| m.compute_fshobst()))
}

#[derive(Default)]
struct Acc {
    n: u64,
    nontriv: u64,
    outcomes: HashSet<u64>,
    amb: u64,
}

fn check_scene(ctx: &Ctx, m: &Model, case: &dyn Fn() -> Value, acc: &mut Acc, claim_unobstructed: Option<bool>) -> Option<std::collections::BTreeMap<Uuid, f32>> {
    acc.n += 1;
    let got = match code_f(m) {
        Ok(g) => g,
        Err(p) => {
            ctx.violation(&format!("panic:{}", panic_key(&p)), &format!("compute_fshobst panicked: {}", p), case());
            return None;
        }
    };
    for win in &m.windows {
        let exp = reference_f(m, win);
        let g = got.get(&win.id).copied();
        match (g, exp) {
            (None, None) => {}
            (Some(g), Some(e)) => {
                acc.amb += e.ambiguous_rays;
                let gg = g as f64;
                if !(gg >= -1e-6 && gg <= 1.0 + 1e-6) {
                    ctx.violation("f_shobst:out-of-[0,1]", &format!("F={}", g), json!({"case": case(), "window": win.name}));
                }
                if gg < e.lo - 0.0051 || gg > e.hi + 0.0051 {
                    let cls = if (gg - 1.0).abs() < 1e-6 { "reports-1" } else if gg > e.hi { "too-high" } else { "too-low" };
                    // a set-back window in a wall whose outline does not start at the local origin along +x: the code places
                    // the reveal surfaces in wall-local coordinates although the window (its sample points) lives in the frame
                    // of the outline. If the value is what that misplacement gives, it is that finding and nothing else.
                    let wall = m.walls.iter().find(|w| w.id == win.wall);
                    let misplaced = win.geometry.setback.abs() >= 0.01 && wall.map_or(false, |w| !geo::outline_frame_is_local(&w.geometry)) && reference_f_in(m, win, false).map_or(false, |a| gg >= a.lo - 0.0051 && gg <= a.hi + 0.0051);
                    let cls = if misplaced { "reveals-placed-in-wall-local-coordinates-not-in-the-frame-of-the-outline" } else { cls };
                    ctx.violation(&format!("f_shobst:differs-from-ray-casting:{}", cls), &format!("F={} but brute-force casting gives [{:.4},{:.4}] (window {})", g, e.lo, e.hi, win.name), json!({"case": case(), "window": win.name, "model": serde_json::to_value(m).unwrap()}));
                }
                if e.unobstructed && claim_unobstructed != Some(false) && gg < 0.97 - 1e-6 {
                    ctx.violation("f_shobst:unobstructed-below-0.97", &format!("F={} for a window nothing can hide", g), json!({"case": case(), "window": win.name}));
                }
                if e.hidden_always && (gg - e.diffuse_share).abs() > 0.0051 {
                    ctx.violation("f_shobst:hidden-not-diffuse-share", &format!("F={} but the window is hidden at every hour (diffuse share {:.4})", g, e.diffuse_share), json!({"case": case(), "window": win.name}));
                }
                if !e.unobstructed {
                    acc.nontriv += 1;
                }
                acc.outcomes.insert(g.to_bits() as u64);
                check_sample_points(ctx, m, win, case);
            }
            (g, e) => {
                ctx.violation("f_shobst:presence", &format!("F={:?} expected {:?}", g, e.map(|e| (e.lo, e.hi))), json!({"case": case(), "window": win.name}));
            }
        }
    }
    Some(got)
}

pub fn run(ctx: &Ctx) -> i32 {
    let zones: Vec<&str> = match ctx.tier {
        Tier::Quick => vec!["D3", "B3", "A3c", "Alfa3c", "E1", "Alfa1c", "C4", "D2c"],
        Tier::Thorough => ALL_ZONES.to_vec(),
    };
    let g = Grid::new(&[("zone", zones.len()), ("azimuth", 8), ("tilt", 3), ("setback", 2), ("obstacle", OBST.len()), ("fillers", FILLERS.len()), ("positions{all,window none,wall none}", 3)]);
    let n = g.size();
    let accs = par_fold(n, |i, acc: &mut Acc| {
        let t = g.unrank(i);
        let m = scene(zones[t[0]], AZS[t[1]], TILTS[t[2]], [0.0, 0.2][t[3]], OBST[t[4]], FILLERS[t[5]], t[6]);
        let case = || json!({"part": "scene", "zone": zones[t[0]], "azimuth": AZS[t[1]], "tilt": TILTS[t[2]], "setback_idx": t[3], "obstacle": OBST[t[4]], "fillers": FILLERS[t[5]], "positions": t[6]});
        let base = check_scene(ctx, &m, &case, acc, None);
        // exact monotonicity: adding any alphabet obstacle (or a wall) never increases F
        if t[5] == 0 && t[6] == 0 && t[0] == 0 {
            if let Some(base) = base {
                let wg = m.walls[0].geometry.clone();
                for extra in OBST.iter().skip(1) {
                    let mut q = m.clone();
                    let mut s = obstacle(extra, &wg).unwrap();
                    s.id = uid(&format!("extra-{extra}"));
                    if *extra == "facing-5m" {
                        // as a wall instead of a shade
                        q.walls.push(wall("extra-wall", BoundaryType::ADIABATIC, uid("wc"), uid("S1"), None, s.geometry.clone()));
                    } else {
                        q.shades.push(s);
                    }
                    acc.n += 1;
                    if let Ok(f2) = code_f(&q) {
                        for (id, f) in &base {
                            if let Some(g2) = f2.get(id) {
                                if *g2 > *f + 1e-6 {
                                    ctx.violation("f_shobst:not-monotone", &format!("adding obstacle {} raises F from {} to {}", extra, f, g2), json!({"case": case(), "extra": extra, "model": serde_json::to_value(&m).unwrap()}));
                                }
                            }
                        }
                    }
                }
            }
        }
    });
    // two windows in one model: every ordered pair of wall poses sharing or not sharing the azimuth / the tilt (what is
    // computed for one window must not depend on which window was treated before it)
    let pz = ctx.tier.pick(3, zones.len());
    let paz = [0.0f32, 90.0, 180.0, -45.0];
    let g2 = Grid::new(&[("zone", pz), ("azimuth A", paz.len()), ("tilt A", 3), ("azimuth B{same,+90}", 2), ("tilt B", 3), ("order", 2), ("B position{yes,window without,wall without}", 3)]);
    let accs2 = par_fold(g2.size(), |i, acc: &mut Acc| {
        let t = g2.unrank(i);
        // every other pair: both windows set back (each has its own reveal surfaces, whatever the other one lacks)
        let sb = if (t[2] + t[4] + t[6]) % 2 == 0 { 0.25 } else { 0.0 };
        let mut m = scene(zones[t[0]], paz[t[1]], TILTS[t[2]], sb, "overhang", 0, 0);
        let az_b = paz[t[1]] + [0.0f32, 90.0][t[3]];
        // (for the turned wall the outline lies away from the local origin and is listed from its third corner)
        let wg = if t[3] == 1 { geom(TILTS[t[4]], az_b, Some([-7.0, -12.0, 12.0]), vec![point![14.0, 13.0], point![10.0, 13.0], point![10.0, 10.0], point![14.0, 10.0]]) } else { geom(TILTS[t[4]], az_b, Some([3.0, -2.0, 12.0]), rect(4.0, 3.0)) };
        m.walls.push(wall("W1", BoundaryType::EXTERIOR, uid("wc"), uid("S1"), None, wg));
        m.windows.push(window("V1", uid("winc"), uid("W1"), Some([1.0, 0.8]), 1.5, 1.2, sb));
        if (t[1] + t[2] + t[4]) % 2 == 1 {
            // a user value for the obstruction factor of the second window: the computed factor that is reported next to it
            // is still the computed one
            let id = m.windows.last().unwrap().id;
            m.overrides.windows.insert(id, WinPropsOverrides { u_value: None, f_shobst: Some(if t[3] == 0 { 0.3 } else { 1.2 }), ..Default::default() });
        }
        match t[6] {
            1 => m.windows.last_mut().unwrap().geometry.position = None,
            2 => m.walls.last_mut().unwrap().geometry.position = None,
            _ => {}
        }
        if t[5] == 1 {
            m.windows.reverse();
            m.walls.reverse();
        }
        // second observation point: the factor reported with the indicators is the computed one
        if let (Ok(direct), Ok(ind)) = (code_f(&m), catch(std::panic::AssertUnwindSafe(|| m.energy_indicators()))) {
            for v in &m.windows {
                let (a, b) = (direct.get(&v.id).copied(), ind.props.windows.get(&v.id).and_then(|p| p.f_shobst));
                acc.n += 1;
                if a.map(f32::to_bits) != b.map(f32::to_bits) {
                    ctx.violation("props.windows.f_shobst:differs-from-compute_fshobst", &format!("window {}: the indicators report the computed obstruction factor {:?}, Model::compute_fshobst gives {:?} (user value: {:?})", v.name, b, a, m.overrides.windows.get(&v.id).and_then(|o| o.f_shobst)), json!({"part": "two-windows", "zone": zones[t[0]], "A(az,tilt)": [paz[t[1]], TILTS[t[2]]], "window": v.name}));
                }
            }
        }
        let case = || json!({"part": "two-windows", "zone": zones[t[0]], "A(az,tilt)": [paz[t[1]], TILTS[t[2]]], "B(az,tilt)": [az_b, TILTS[t[4]]], "B listed first": t[5] == 1, "B position(0 yes,1 window without,2 wall without)": t[6]});
        check_scene(ctx, &m, &case, acc, None);
    });
    // real models: reference comparison + one extra obstacle in front of the first window's wall
    let mut acc3 = Acc::default();
    let reals = shipped_models();
    for (name, m) in &reals {
        let case = || json!({"part": "shipped", "file": name});
        let base = check_scene(ctx, m, &case, &mut acc3, Some(false));
        if let (Some(base), Some(w0)) = (base, m.windows.first().and_then(|v| m.walls.iter().find(|w| w.id == v.wall))) {
            if w0.geometry.position.is_some() {
                for extra in ["facing-1m", "facing-5m", "overhang", "big-overhang"] {
                    let mut q = m.clone();
                    let mut s = obstacle(extra, &w0.geometry).unwrap();
                    s.id = uid(&format!("extra-{extra}"));
                    q.shades.push(s);
                    let case2 = || json!({"part": "shipped+obstacle", "file": name, "extra": extra});
                    if let Some(f2) = check_scene(ctx, &q, &case2, &mut acc3, Some(false)) {
                        for (id, f) in &base {
                            if let Some(g2) = f2.get(id) {
                                if *g2 > *f + 1e-6 {
                                    ctx.violation("f_shobst:not-monotone", &format!("{}: adding {} raises F of a window from {} to {}", name, extra, f, g2), case2());
                                }
                            }
                        }
                    }
                }
            }
        }
    }
    let mut amb = 0;
    for a in accs.iter().chain(accs2.iter()).chain(std::iter::once(&acc3)) {
        ctx.eval(a.n);
        ctx.nontriv(a.nontriv);
        ctx.outcome_merge(&a.outcomes);
        amb += a.amb;
    }
    ctx.note("ambiguous_rays_in_band", json!(amb));
    let t = g.unrank(n / 2 + 3);
    ctx.sample(json!({"part": "scene", "zone": zones[t[0]], "azimuth": AZS[t[1]], "tilt": TILTS[t[2]], "setback_idx": t[3], "obstacle": OBST[t[4]], "fillers": FILLERS[t[5]], "positions": t[6]}));
    ctx.finish(
        "model_checking",
        &format!("full product zones({}) x window-wall azimuth(8) x tilt{{90,45,0}} x setback{{0,0.2}} x obstacle{{none, facing wall at 1/5/20 m (the one at 1 m also with a fifth corner in the middle of its first side, and with a sloped top), overhang, big overhang, side fin, half cover, behind, below}} x far-away filler occluders{{0,29,30,31,60}} (crossing the BVH leaf size) x positions{{all, window without, wall without}} (every other scene lists the wall outline from its third corner, the window staying where it is); oracle: brute-force f64 ray/polygon casting from the code's own sample points over the statement's occluder set (reveals recomputed), bands: 1 mm from an outline, |n.d|<0.02, sun within 0.02 of the back-face threshold; F in [lo-0.005, hi+0.005], in [0,1], >= 0.97 when nothing can be hit, diffuse share when hidden at every hour, sample points on the window rectangle in the set-back plane; exact monotonicity when each alphabet obstacle (one as a wall) is added; two-window models over all ordered pairs of wall poses (azimuth(4) x tilt(3) x second azimuth{{same,+90}} x tilt(3) x list order x second window with / without position, every other pair with both windows set back 0.25 m, every other one with a user obstruction factor next to the computed one, and the factor in EnergyIndicators.props.windows compared with Model::compute_fshobst); shipped models with and without extra obstacles; non-trivial = some ray can be blocked", zones.len()),
        true,
        json!({"scenes": n}),
    )
}
