//! C16 — purging removes exactly the unreachable items and changes no indicator (E1 full products)

use crate::common::*;
use crate::gen::*;
use bemodel::*;
use serde_json::json;
use std::collections::HashSet;

fn subset(names: [&str; 2], mask: usize) -> Vec<(Uuid, u32)> {
    // masks 0..3: subsets with positive counts; 4: first item listed with 0 repetitions + second; 5: only the first, 0 repetitions
    let mut v = vec![];
    match mask {
        4 => {
            v.push((uid(names[0]), 0));
            v.push((uid(names[1]), 7));
        }
        5 => v.push((uid(names[0]), 0)),
        _ => {
            if mask & 1 != 0 {
                v.push((uid(names[0]), 3));
            }
            if mask & 2 != 0 {
                v.push((uid(names[1]), 4));
            }
        }
    }
    v
}

fn opt(names: &[&str], i: usize) -> Option<Uuid> {
    if i == 0 {
        None
    } else {
        Some(uid(names[i - 1]))
    }
}

/// usage chain model from a tuple
fn usage_model(t: &[usize]) -> Model {
    // t: [walls(21), sp1(6), sp2(6), l1(6), l2(6), th(3), y1(4), y2(4), w1(4), w2(4)]
    let mut m = model_with_meta(meta(zone("D3")));
    let wc = std_cons(&mut m);
    // walls
    let wseq: Vec<usize> = match t[0] {
        0 => vec![],
        k if k <= 4 => vec![k - 1],
        k => vec![(k - 5) % 4, (k - 5) / 4],
    };
    for (i, o) in wseq.iter().enumerate() {
        let sp = if o % 2 == 0 { uid("s1") } else { uid("s2") };
        let nt = if o / 2 == 0 { None } else { Some(uid("s2")) };
        m.walls.push(wall(
            &format!("w{i}"),
            // an adjacent space is a reference whatever the boundary kind of the wall that names it (party walls)
            if nt.is_some() { if i == 0 { BoundaryType::INTERIOR } else { BoundaryType::ADIABATIC } } else { BoundaryType::EXTERIOR },
            wc,
            sp,
            nt,
            geom(if i == 0 { 180.0 } else { 90.0 }, 0.0, Some([0.0, i as f32 * 6.0, 0.0]), rect(4.0, 3.0)),
        ));
    }
    for (name, o) in [("s1", t[1]), ("s2", t[2])] {
        let mut s = space(name, SpaceType::CONDITIONED, true, 3.0);
        s.loads = opt(&["l1", "l2"], o % 3);
        s.thermostat = opt(&["t1"], o / 3);
        m.spaces.push(s);
    }
    // s3: never referenced by a wall; uses l2 / t1
    let mut s3 = space("s3", SpaceType::CONDITIONED, true, 3.0);
    s3.loads = Some(uid("l2"));
    s3.thermostat = Some(uid("t1"));
    m.spaces.insert(1, s3); // in the middle: order preservation is observable
    for (name, o) in [("l1", t[3]), ("l2", t[4])] {
        m.loads.push(SpaceLoads {
            id: uid(name),
            name: name.into(),
            area_per_person: 10.0,
            people_schedule: opt(&["y1", "y2"], o % 3),
            people_sensible: 70.0,
            people_latent: 40.0,
            equipment: 4.0,
            equipment_schedule: opt(&["y2"], o / 3),
            lighting: 5.0,
            lighting_schedule: None, ..Default::default()
        });
    }
    m.thermostats.push(Thermostat {
        id: uid("t1"),
        name: "t1".into(),
        temp_max: opt(&["y1", "y2"], t[5]),
        temp_min: None, ..Default::default()
    });
    // an unused year schedule first, to observe order
    m.schedules.year.push(Schedule { id: uid("y0"), name: "y0".into(), values: vec![(uid("w1"), 365)], ..Default::default() });
    m.schedules.year.push(Schedule { id: uid("y1"), name: "y1".into(), values: subset(["w1", "w2"], t[6]), ..Default::default() });
    m.schedules.year.push(Schedule { id: uid("y2"), name: "y2".into(), values: subset(["w1", "w2"], t[7]), ..Default::default() });
    m.schedules.week.push(ScheduleWeek { id: uid("w1"), name: "w1".into(), values: subset(["d1", "d2"], t[8]), ..Default::default() });
    m.schedules.week.push(ScheduleWeek { id: uid("w2"), name: "w2".into(), values: subset(["d1", "d2"], t[9]), ..Default::default() });
    m.schedules.day.push(ScheduleDay { id: uid("d1"), name: "d1".into(), values: vec![1.0; 24], ..Default::default() });
    m.schedules.day.push(ScheduleDay { id: uid("d2"), name: "d2".into(), values: vec![0.0; 24], ..Default::default() });
    // ids are unique within a list, not across lists: a never-used weekly schedule carrying the id of the yearly schedule
    // y1 (with a daily schedule of its own), and a never-used yearly schedule carrying the id of the weekly schedule w1
    // (with a weekly schedule of its own): all four go, whatever is in use
    m.schedules.week.push(ScheduleWeek { id: uid("y1"), name: "wx".into(), values: vec![(uid("dx"), 7)], ..Default::default() });
    m.schedules.day.push(ScheduleDay { id: uid("dx"), name: "dx".into(), values: vec![0.5; 24], ..Default::default() });
    m.schedules.year.push(Schedule { id: uid("w1"), name: "yx".into(), values: vec![(uid("wy"), 365)], ..Default::default() });
    m.schedules.week.push(ScheduleWeek { id: uid("wy"), name: "wy".into(), values: vec![(uid("d1"), 7)], ..Default::default() });
    m
}

const BRIDGE_L: [f32; 6] = [0.0, -0.0, 1e-9, 0.005, 1.0, -1.0];

/// construction chain model
fn cons_model(t: &[usize]) -> Model {
    // t: [walls(13), c1(4), c2(4), wins(13), k1(9), k2(9), bridges(6)]
    let mut m = model_with_meta(meta(zone("D3")));
    m.spaces.push(space("s1", SpaceType::CONDITIONED, true, 3.0));
    let seq = |k: usize| -> Vec<usize> {
        match k {
            0 => vec![],
            k if k <= 3 => vec![k - 1],
            k => vec![(k - 4) % 3, (k - 4) / 3],
        }
    };
    for (i, o) in seq(t[0]).iter().enumerate() {
        let c = [uid("c1"), uid("c2"), uid("absent-cons")][*o];
        m.walls.push(wall(&format!("w{i}"), BoundaryType::EXTERIOR, c, uid("s1"), None, geom(if i == 0 { 180.0 } else { 90.0 }, 0.0, Some([0.0, i as f32 * 6.0, 0.0]), rect(4.0, 3.0))));
    }
    for (i, o) in seq(t[3]).iter().enumerate() {
        let c = [uid("k1"), uid("k2"), uid("absent-wincons")][*o];
        m.windows.push(window(&format!("v{i}"), c, uid("w1"), Some([0.5 + i as f32 * 1.5, 1.0]), 1.0, 1.0, 0.0));
    }
    let lay = |mask: usize| -> Vec<(Uuid, f32)> {
        let mut v = vec![];
        if mask & 1 != 0 {
            v.push((uid("m1"), 0.1));
        }
        if mask & 2 != 0 {
            v.push((uid("m2"), 0.2));
        }
        v
    };
    // never used, first - in every other model; in the others the material m3 is an orphan from the start and every
    // construction there is may be in use
    if t[6] % 2 == 0 {
        // (it has the shared material m1 on both faces: a layer is not a construction)
        m.cons.wallcons.push(wallcons("c3", &[(uid("m1"), 0.02), (uid("m3"), 0.1), (uid("m1"), 0.02)]));
    }
    m.cons.wallcons.push(wallcons("c1", &lay(t[1])));
    m.cons.wallcons.push(wallcons("c2", &lay(t[2])));
    m.cons.materials.push(mat_detailed("m1", 0.04));
    m.cons.materials.push(mat_detailed("m3", 1.0));
    m.cons.materials.push(mat_resistance("m2", 0.2));
    for (name, o) in [("k1", t[4]), ("k2", t[5])] {
        let g = [uid("g1"), uid("g2"), uid("absent-glass")][o % 3];
        let f = [uid("f1"), uid("f2"), uid("absent-frame")][o / 3];
        // (the first construction has no frame share: it still names its frame)
        m.cons.wincons.push(wincons(name, g, f, if name == "k1" { 0.0 } else { 0.2 }, 0.0, None, 27.0));
    }
    m.cons.glasses.push(glass("g1", 2.8, 0.7));
    m.cons.glasses.push(glass("g2", 1.1, 0.5));
    m.cons.frames.push(frame("f1", 3.2));
    m.cons.frames.push(frame("f2", 1.3));
    for (i, l) in [BRIDGE_L[t[6]], 2.0, BRIDGE_L[(t[6] + 3) % 6]].iter().enumerate() {
        m.thermal_bridges.push(ThermalBridge { id: uid(&format!("tb{i}")), name: format!("tb{i}"), kind: ThermalBridgeKind::CORNER, l: *l, psi: 0.1, ..Default::default() });
    }
    m
}

/// Reference: expected survivors (ids, in original order) per collection. `None` entries = band (either accepted)
#[derive(Debug, PartialEq, Eq)]
struct Survivors {
    spaces: Vec<Uuid>,
    wallcons: Vec<Uuid>,
    wincons: Vec<Uuid>,
    materials: Vec<Uuid>,
    glasses: Vec<Uuid>,
    frames: Vec<Uuid>,
    loads: Vec<Uuid>,
    thermostats: Vec<Uuid>,
    year: Vec<Uuid>,
    week: Vec<Uuid>,
    day: Vec<Uuid>,
}

fn reference(m: &Model) -> Survivors {
    let used_spaces: HashSet<Uuid> = m.walls.iter().flat_map(|w| std::iter::once(w.space).chain(w.next_to)).collect();
    let spaces: Vec<&Space> = m.spaces.iter().filter(|s| used_spaces.contains(&s.id)).collect();
    let used_wc: HashSet<Uuid> = m.walls.iter().map(|w| w.cons).collect();
    let wallcons: Vec<&WallCons> = m.cons.wallcons.iter().filter(|c| used_wc.contains(&c.id)).collect();
    let used_kc: HashSet<Uuid> = m.windows.iter().map(|w| w.cons).collect();
    let wincons: Vec<&WinCons> = m.cons.wincons.iter().filter(|c| used_kc.contains(&c.id)).collect();
    let used_m: HashSet<Uuid> = wallcons.iter().flat_map(|c| c.layers.iter().map(|l| l.material)).collect();
    let used_g: HashSet<Uuid> = wincons.iter().map(|c| c.glass).collect();
    let used_f: HashSet<Uuid> = wincons.iter().map(|c| c.frame).collect();
    let used_l: HashSet<Uuid> = spaces.iter().filter_map(|s| s.loads).collect();
    let used_t: HashSet<Uuid> = spaces.iter().filter_map(|s| s.thermostat).collect();
    let loads: Vec<&SpaceLoads> = m.loads.iter().filter(|l| used_l.contains(&l.id)).collect();
    let therm: Vec<&Thermostat> = m.thermostats.iter().filter(|l| used_t.contains(&l.id)).collect();
    let mut used_y: HashSet<Uuid> = HashSet::new();
    for l in &loads {
        used_y.extend([l.people_schedule, l.equipment_schedule, l.lighting_schedule].into_iter().flatten());
    }
    for t in &therm {
        used_y.extend([t.temp_max, t.temp_min].into_iter().flatten());
    }
    let year: Vec<&Schedule> = m.schedules.year.iter().filter(|y| used_y.contains(&y.id)).collect();
    let used_w: HashSet<Uuid> = year.iter().flat_map(|y| y.values.iter().map(|v| v.0)).collect();
    let week: Vec<&ScheduleWeek> = m.schedules.week.iter().filter(|y| used_w.contains(&y.id)).collect();
    let used_d: HashSet<Uuid> = week.iter().flat_map(|y| y.values.iter().map(|v| v.0)).collect();
    Survivors {
        spaces: spaces.iter().map(|s| s.id).collect(),
        wallcons: wallcons.iter().map(|s| s.id).collect(),
        wincons: wincons.iter().map(|s| s.id).collect(),
        materials: m.cons.materials.iter().filter(|x| used_m.contains(&x.id)).map(|x| x.id).collect(),
        glasses: m.cons.glasses.iter().filter(|x| used_g.contains(&x.id)).map(|x| x.id).collect(),
        frames: m.cons.frames.iter().filter(|x| used_f.contains(&x.id)).map(|x| x.id).collect(),
        loads: loads.iter().map(|s| s.id).collect(),
        thermostats: therm.iter().map(|s| s.id).collect(),
        year: year.iter().map(|s| s.id).collect(),
        week: week.iter().map(|s| s.id).collect(),
        day: m.schedules.day.iter().filter(|x| used_d.contains(&x.id)).map(|x| x.id).collect(),
    }
}

fn observed(m: &Model) -> Survivors {
    Survivors {
        spaces: m.spaces.iter().map(|s| s.id).collect(),
        wallcons: m.cons.wallcons.iter().map(|s| s.id).collect(),
        wincons: m.cons.wincons.iter().map(|s| s.id).collect(),
        materials: m.cons.materials.iter().map(|s| s.id).collect(),
        glasses: m.cons.glasses.iter().map(|s| s.id).collect(),
        frames: m.cons.frames.iter().map(|s| s.id).collect(),
        loads: m.loads.iter().map(|s| s.id).collect(),
        thermostats: m.thermostats.iter().map(|s| s.id).collect(),
        year: m.schedules.year.iter().map(|s| s.id).collect(),
        week: m.schedules.week.iter().map(|s| s.id).collect(),
        day: m.schedules.day.iter().map(|s| s.id).collect(),
    }
}

fn diff_key(a: &Survivors, e: &Survivors) -> String {
    let fields: [(&str, &Vec<Uuid>, &Vec<Uuid>); 11] = [
        ("spaces", &a.spaces, &e.spaces),
        ("wallcons", &a.wallcons, &e.wallcons),
        ("wincons", &a.wincons, &e.wincons),
        ("materials", &a.materials, &e.materials),
        ("glasses", &a.glasses, &e.glasses),
        ("frames", &a.frames, &e.frames),
        ("loads", &a.loads, &e.loads),
        ("thermostats", &a.thermostats, &e.thermostats),
        ("schedules.year", &a.year, &e.year),
        ("schedules.week", &a.week, &e.week),
        ("schedules.day", &a.day, &e.day),
    ];
    for (n, x, y) in fields {
        if x != y {
            let xs: HashSet<_> = x.iter().collect();
            let ys: HashSet<_> = y.iter().collect();
            let kind = if xs == ys {
                "order-changed"
            } else if xs.is_subset(&ys) {
                "reachable-item-removed"
            } else if ys.is_subset(&xs) {
                "unreachable-item-kept"
            } else {
                "wrong-set"
            };
            return format!("purge:{}:{}", n, kind);
        }
    }
    "purge:?".into()
}

/// check bridges: exact zero removed, |l| >= 1e-3 kept, in between band; order preserved
fn check_bridges(ctx: &Ctx, before: &Model, after: &Model, case: &dyn Fn() -> serde_json::Value) {
    let kept: Vec<Uuid> = after.thermal_bridges.iter().map(|t| t.id).collect();
    let mut expected_min: Vec<Uuid> = vec![];
    for tb in &before.thermal_bridges {
        let is_kept = kept.contains(&tb.id);
        if tb.l == 0.0 && is_kept {
            ctx.violation("purge:bridges:zero-length-kept", &format!("bridge of length {:?} survived the purge", tb.l), case());
        }
        if tb.l.abs() >= 1e-3 {
            expected_min.push(tb.id);
            if !is_kept {
                ctx.violation("purge:bridges:nonzero-length-removed", &format!("bridge of length {} was purged", tb.l), case());
            }
        }
    }
    let order: Vec<Uuid> = before.thermal_bridges.iter().map(|t| t.id).filter(|i| kept.contains(i)).collect();
    if order != kept {
        ctx.violation("purge:bridges:order-changed", "relative order of bridges changed", case());
    }
}

fn indicators_sig(m: &Model) -> Result<[f32; 7], String> {
    let ind = catch(std::panic::AssertUnwindSafe(|| m.energy_indicators()))?;
    Ok([ind.area_ref, ind.vol_env_net, ind.vol_env_gross, ind.K_data.K, ind.n50_data.n50, ind.q_soljul_data.q_soljul, ind.compactness])
}

fn check_one(ctx: &Ctx, m: &Model, with_indicators: bool, case: &dyn Fn() -> serde_json::Value) -> u64 {
    let exp = reference(m);
    let mut p = m.clone();
    purge_unused(&mut p);
    let got = observed(&p);
    if got != exp {
        ctx.violation(&diff_key(&got, &exp), &format!("survivors differ: got {:?} expected {:?}", got, exp), case());
    }
    check_bridges(ctx, m, &p, case);
    // walls, windows, shades untouched
    if p.walls.len() != m.walls.len() || p.windows.len() != m.windows.len() || p.shades.len() != m.shades.len() {
        ctx.violation("purge:elements-removed", "walls/windows/shades must not be purged", case());
    }
    // idempotence
    let j1 = p.as_json().unwrap();
    let mut p2 = p.clone();
    purge_unused(&mut p2);
    if p2.as_json().unwrap() != j1 {
        ctx.violation("purge:not-idempotent", "purging twice differs from purging once", case());
    }
    // no new broken link
    let w_before = check(m).len();
    let w_after = check(&p).len();
    if w_after > w_before {
        ctx.violation("purge:introduces-broken-link", &format!("checker warnings {} -> {}", w_before, w_after), case());
    }
    if with_indicators {
        match (indicators_sig(m), indicators_sig(&p)) {
            (Ok(a), Ok(b)) => {
                let same = a.iter().zip(b.iter()).all(|(x, y)| x.to_bits() == y.to_bits() || (x - y).abs() <= 1e-6 * x.abs().max(1e-3) || (x.is_nan() && y.is_nan()));
                if !same {
                    ctx.violation("purge:indicators-changed", &format!("[a_ref,vol_net,vol_gross,K,n50,q_soljul,compactness] {:?} -> {:?}", a, b), case());
                }
            }
            (Err(e), _) | (_, Err(e)) => ctx.violation(&format!("panic:{}", panic_key(&e)), &format!("indicator computation panicked: {}", e), case()),
        }
    }
    let removed = (m.spaces.len() - p.spaces.len()) + (m.loads.len() - p.loads.len()) + (m.schedules.year.len() - p.schedules.year.len()) + (m.cons.materials.len() - p.cons.materials.len());
    hash64(&format!("{:?}", got)) ^ removed as u64
}

pub fn run(ctx: &Ctx) -> i32 {
    #[derive(Default)]
    struct Acc {
        outcomes: HashSet<u64>,
        n: u64,
    }
    // ---- usage chain
    let g = match ctx.tier {
        Tier::Quick => Grid::new(&[("walls", 21), ("s1", 6), ("s2", 3), ("l1", 6), ("l2", 3), ("t1", 3), ("y1", 6), ("y2", 1), ("w1", 6), ("w2", 1)]),
        Tier::Thorough => Grid::new(&[("walls", 21), ("s1", 6), ("s2", 6), ("l1", 6), ("l2", 6), ("t1", 3), ("y1", 6), ("y2", 6), ("w1", 6), ("w2", 6)]),
    };
    let n1 = g.size();
    let fix = |t: &mut Vec<usize>| {
        if ctx.tier == Tier::Quick {
            t[7] = 2; // y2 -> [w2]
            t[9] = 2; // w2 -> [d2]
        }
    };
    let accs = par_fold(n1, |i, acc: &mut Acc| {
        let mut t = g.unrank(i);
        fix(&mut t);
        let m = usage_model(&t);
        let case = || json!({"chain": "usage", "tuple": g.describe(&t), "model": serde_json::to_value(&m).unwrap()});
        let o = check_one(ctx, &m, i % 211 == 0, &case);
        acc.outcomes.insert(o);
        acc.n += 1;
    });
    for a in &accs {
        ctx.outcome_merge(&a.outcomes);
        ctx.eval(a.n);
        ctx.nontriv(a.n);
    }
    let mut t0 = g.unrank(n1 / 3);
    fix(&mut t0);
    ctx.sample(json!({"chain": "usage", "tuple": g.describe(&t0)}));
    // ---- construction chain
    let g2 = Grid::new(&[("walls", 13), ("c1_layers", 4), ("c2_layers", 4), ("windows", 13), ("k1", 9), ("k2", 9), ("bridge_l", 6)]);
    let n2 = g2.size();
    let accs = par_fold(n2, |i, acc: &mut Acc| {
        let t = g2.unrank(i);
        let m = cons_model(&t);
        let case = || json!({"chain": "constructions", "tuple": g2.describe(&t), "model": serde_json::to_value(&m).unwrap()});
        let o = check_one(ctx, &m, i % 53 == 0, &case);
        acc.outcomes.insert(o);
        acc.n += 1;
    });
    for a in &accs {
        ctx.outcome_merge(&a.outcomes);
        ctx.eval(a.n);
        ctx.nontriv(a.n);
    }
    ctx.sample(json!({"chain": "constructions", "tuple": g2.describe(&g2.unrank(n2 / 2))}));
    // ---- real models (with extra unused items appended)
    for (name, m) in shipped_models() {
        let mut m2 = m.clone();
        m2.spaces.insert(0, space("unused-space", SpaceType::CONDITIONED, true, 3.0));
        m2.cons.materials.insert(0, mat_detailed("unused-mat", 1.0));
        m2.thermal_bridges.insert(0, ThermalBridge { id: uid("tb-zero"), name: "z".into(), kind: ThermalBridgeKind::GENERIC, l: 0.0, psi: 1.0, ..Default::default() });
        for (v, mm) in [("as-shipped", &m), ("with-unused-items", &m2)] {
            ctx.eval(1);
            ctx.nontriv(1);
            let case = || json!({"file": name, "variant": v});
            check_one(ctx, mm, true, &case);
        }
    }
    ctx.finish(
        "model_checking",
        &format!("usage chain full product ({} models): 0..2 walls x (space{{s1,s2}} x next_to{{None,s2}}; the first wall with an adjacent space is INTERIOR, the second ADIABATIC) x 2 spaces x (loads{{-,l1,l2}} x thermostat{{-,t1}}) + one never-referenced space x 2 loads x (people{{-,y1,y2}} x equipment{{-,y2}}) x thermostat temp_max{{-,y1,y2}} x yearly schedules (+ a never-used weekly schedule with the id of a yearly one and a never-used yearly schedule with the id of a weekly one) x weeks subsets (incl. entries listed with 0 repetitions) x weekly x days subsets (idem); construction chain full product ({} models): 0..2 walls x cons{{c1,c2,absent}} x layers subsets x 0..2 windows x cons{{k1,k2,absent}} x (glass{{g1,g2,absent}} x frame{{f1,f2,absent}})^2 x bridge lengths{{0,-0,1e-9,0.005,1,-1}}; oracle: independent reachability => exact survivor list in original order per collection, idempotence (byte-identical JSON), no new checker warning, and (every 211th / 53rd model + 7 shipped models as shipped and with unused items inserted) a_ref, volumes, K, n50, q_soljul, compactness unchanged", n1, n2),
        true,
        json!({"usage_space": n1, "cons_space": n2}),
    )
}
