//! C15 — the model checker reports exactly the broken links (E1: full product of link states)

use crate::common::*;
use crate::gen::*;
use bemodel::*;
use serde_json::json;
use std::collections::{BTreeMap, HashSet};

const WALL_OPTS: usize = 36; // space{ok,absent,nil} x cons{ok,absent,nil} x next_to{None,ok,absent,nil}
const WIN_OPTS: usize = 6; // wall{ok,absent,nil} x cons{ok,absent}
const LENS: [f32; 6] = [-1.0, -0.0, 0.0, 2.0, -0.004, -1.0e-30];

fn seqs(opts: usize, maxn: usize) -> Vec<Vec<usize>> {
    let mut out = vec![vec![]];
    let mut cur: Vec<Vec<usize>> = vec![vec![]];
    for _ in 0..maxn {
        let mut nxt = vec![];
        for s in &cur {
            for o in 0..opts {
                let mut t = s.clone();
                t.push(o);
                nxt.push(t);
            }
        }
        out.extend(nxt.iter().cloned());
        cur = nxt;
    }
    out
}

/// an id that is not in the model but agrees with one that is in all but its leading hex digit (a copy with a slip)
fn near(id: Uuid) -> Uuid {
    let mut b = *id.as_bytes();
    b[0] ^= 0x80;
    Uuid::from_bytes(b)
}

fn build(walls: &[usize], wins: &[usize], tbs: &[usize], nil_space: bool) -> Model {
    let mut m = model_with_meta(meta(zone("D3")));
    let wc = std_cons(&mut m);
    let winc = std_wincons(&mut m);
    m.spaces.push(space("S1", SpaceType::CONDITIONED, true, 3.0));
    m.spaces.push(space("S2", SpaceType::CONDITIONED, true, 3.0));
    if nil_space {
        let mut s = space("Snil", SpaceType::CONDITIONED, true, 3.0);
        s.id = nil();
        m.spaces.push(s);
    }
    for (k, o) in walls.iter().enumerate() {
        let sp = match o % 3 {
            0 => uid("S1"),
            // (an absent id is, for the first element, an id that exists in another collection; for the second, a present id
            // with a slip in its leading digit; a fresh one from the third on)
            1 => if k == 0 { wc } else if k == 1 { near(uid("S1")) } else { uid("absent-space") },
            _ => nil(),
        };
        let cons = match (o / 3) % 3 {
            0 => wc,
            1 => if k == 0 { winc } else if k == 1 { near(wc) } else { uid("absent-cons") },
            _ => nil(),
        };
        let nt = match o / 9 {
            0 => None,
            1 => Some(uid("S2")),
            2 => Some(if k == 0 { uid("w0") } else if k == 1 { near(uid("S2")) } else { uid("absent-next") }),
            _ => Some(nil()),
        };
        // the boundary kind cycles with the option index and the position, so every (adjacent-space option, boundary kind)
        // pair occurs: a link is a link whatever the kind of the wall that carries it
        let bounds = [BoundaryType::INTERIOR, BoundaryType::EXTERIOR, BoundaryType::ADIABATIC, BoundaryType::GROUND][(o + k) % 4];
        let mut w = wall(&format!("w{k}"), bounds, cons, sp, nt, geom(90.0, 0.0, Some([0.0, k as f32 * 5.0, 0.0]), rect(4.0, 3.0)));
        if k == 1 {
            w.geometry.azimuth = 90.0;
        }
        if (o + k) % 3 == 1 {
            // a user U-value does not make the construction link of the wall any less of a link
            m.overrides.walls.insert(w.id, WallPropsOverrides { u_value: Some(0.35), ..Default::default() });
        }
        m.walls.push(w);
    }
    for (k, o) in wins.iter().enumerate() {
        let wl = match o % 3 {
            0 => uid("w0"),
            1 => if k == 0 { uid("S1") } else if k == 1 { near(uid("w0")) } else { uid("absent-wall") },
            _ => nil(),
        };
        let cons = match o / 3 {
            0 => winc,
            _ => if k == 0 { wc } else if k == 1 { near(winc) } else { uid("absent-wincons") },
        };
        let v = window(&format!("v{k}"), cons, wl, Some([1.0, 1.0]), 1.0, 1.0, 0.0);
        if (o + k) % 2 == 1 {
            m.overrides.windows.insert(v.id, WinPropsOverrides { u_value: Some(1.1), f_shobst: Some(0.5), ..Default::default() });
        }
        m.windows.push(v);
    }
    for (k, o) in tbs.iter().enumerate() {
        m.thermal_bridges.push(ThermalBridge {
            id: uid(&format!("tb{k}")),
            name: format!("tb{k}"),
            kind: ThermalBridgeKind::GENERIC,
            l: LENS[*o],
            psi: 0.1, ..Default::default()
        });
    }
    m
}

/// reference: number of broken links per element id
fn expected(m: &Model) -> BTreeMap<Uuid, usize> {
    let spaces: HashSet<Uuid> = m.spaces.iter().map(|s| s.id).collect();
    let walls: HashSet<Uuid> = m.walls.iter().map(|s| s.id).collect();
    let wcs: HashSet<Uuid> = m.cons.wallcons.iter().map(|s| s.id).collect();
    let wincs: HashSet<Uuid> = m.cons.wincons.iter().map(|s| s.id).collect();
    let mut e: BTreeMap<Uuid, usize> = BTreeMap::new();
    for w in &m.walls {
        let mut n = 0;
        if !spaces.contains(&w.space) {
            n += 1
        }
        if !wcs.contains(&w.cons) {
            n += 1
        }
        if let Some(nt) = w.next_to {
            if !spaces.contains(&nt) {
                n += 1
            }
        }
        if n > 0 {
            *e.entry(w.id).or_default() += n;
        }
    }
    for w in &m.windows {
        let mut n = 0;
        if !walls.contains(&w.wall) {
            n += 1
        }
        if !wincs.contains(&w.cons) {
            n += 1
        }
        if n > 0 {
            *e.entry(w.id).or_default() += n;
        }
    }
    for tb in &m.thermal_bridges {
        if tb.l < 0.0 {
            *e.entry(tb.id).or_default() += 1;
        }
    }
    e
}

pub fn run(ctx: &Ctx) -> i32 {
    let wall_seqs = seqs(WALL_OPTS, 2);
    let win_seqs = seqs(WIN_OPTS, 2);
    let tb_seqs = seqs(LENS.len(), ctx.tier.pick(1, 2));
    let sp = Grid::new(&[("walls", wall_seqs.len()), ("windows", win_seqs.len()), ("bridges", tb_seqs.len()), ("nil_space", 2), ("nil_own_id", 4)]);
    let n = sp.size();
    #[derive(Default)]
    struct Acc {
        outcomes: HashSet<u64>,
        nontriv: u64,
    }
    let accs = par_fold(n, |i, acc: &mut Acc| {
        let t = sp.unrank(i);
        let mut m = build(&wall_seqs[t[0]], &win_seqs[t[1]], &tb_seqs[t[2]], t[3] == 1);
        // the id of the element that carries the broken link is an id like any other - also the nil one, which serde accepts
        // and no exporter writes: the last wall, window or bridge has it in three of every four models
        match t[4] {
            1 => if let Some(w) = m.walls.last_mut() { w.id = nil() },
            2 => if let Some(w) = m.windows.last_mut() { w.id = nil() },
            3 => if let Some(w) = m.thermal_bridges.last_mut() { w.id = nil() },
            _ => {}
        }
        if i % 5 == 2 {
            // every fifth model: long names of 2-, 3- and 4-byte letters starting at different byte offsets (a warning
            // that quotes a name quotes it whole, or cuts it between letters)
            let wide = |k: usize| -> String { format!("{}{}", "a".repeat(k % 4), [("ó", 24usize), ("€", 16), ("𝄞", 12), ("ñ", 30)][k % 4].0.repeat([24usize, 16, 12, 30][k % 4])) };
            for (k, w) in m.walls.iter_mut().enumerate() {
                w.name = wide(k);
            }
            for (k, w) in m.windows.iter_mut().enumerate() {
                w.name = wide(k + 2);
            }
            for (k, w) in m.thermal_bridges.iter_mut().enumerate() {
                w.name = wide(k + 1);
            }
        }
        ctx.eval(1);
        let case = || json!({"walls(space+3*cons+9*next_to)": wall_seqs[t[0]], "windows(wall+3*cons)": win_seqs[t[1]], "bridge_len_idx": tb_seqs[t[2]], "nil_space": t[3] == 1, "nil_own_id(0 none,1 last wall,2 last window,3 last bridge)": t[4], "model": serde_json::to_value(&m).unwrap()});
        if i % (n / 3 + 1) == n / 7 {
            ctx.sample(json!({"walls(space+3*cons+9*next_to)": wall_seqs[t[0]], "windows(wall+3*cons)": win_seqs[t[1]], "bridge_len_idx": tb_seqs[t[2]], "nil_space": t[3] == 1}));
        }
        let exp = expected(&m);
        let before = if i % 97 == 0 { Some(m.as_json().unwrap()) } else { None };
        let ws = match catch(std::panic::AssertUnwindSafe(|| check(&m))) {
            Ok(ws) => ws,
            Err(p) => {
                ctx.violation(&format!("check:panic:{}", panic_key(&p)), &format!("the checker panics instead of reporting: {}", p), case());
                return;
            }
        };
        let mut got: BTreeMap<Uuid, usize> = BTreeMap::new();
        let mut noid = 0;
        for w in &ws {
            match w.id {
                Some(id) => *got.entry(id).or_default() += 1,
                None => noid += 1,
            }
        }
        if !exp.is_empty() {
            acc.nontriv += 1;
        }
        if noid > 0 {
            ctx.violation("check:warning-without-id", "checker emitted a warning without element id", case());
        }
        if got != exp {
            // classify
            let mut key = "check:count-mismatch".to_string();
            for (id, n) in &got {
                let e = exp.get(id).copied().unwrap_or(0);
                if *n != e {
                    let kind = if m.walls.iter().any(|w| w.id == *id) {
                        "wall"
                    } else if m.windows.iter().any(|w| w.id == *id) {
                        "window"
                    } else if let Some(tb) = m.thermal_bridges.iter().find(|w| w.id == *id) {
                        if tb.l == 0.0 && tb.l.is_sign_negative() {
                            "bridge(-0.0)"
                        } else {
                            "bridge"
                        }
                    } else {
                        "unknown-id"
                    };
                    key = format!("check:{}:{}", kind, if *n > e { "spurious-or-duplicate-warning" } else { "missing-warning" });
                }
            }
            for (id, e) in &exp {
                if !got.contains_key(id) {
                    let kind = if m.walls.iter().any(|w| w.id == *id) {
                        "wall"
                    } else if m.windows.iter().any(|w| w.id == *id) {
                        "window"
                    } else {
                        "bridge"
                    };
                    let _ = e;
                    key = format!("check:{}:missing-warning", kind);
                }
            }
            ctx.violation(&key, &format!("warnings per id {:?} expected {:?}", got, exp), case());
        }
        if let Some(b) = before {
            if m.as_json().unwrap() != b {
                ctx.violation("check:modifies-model", "model JSON differs after check()", case());
            }
            // history: a model that was already checked (and its clone) is edited through its public collections and
            // checked again - the answer is the one for the model as it is now
            let edits: [(&str, fn(&mut Model)); 4] = [
                ("last space removed", |q| {
                    q.spaces.pop();
                }),
                ("first wall construction removed", |q| {
                    if !q.cons.wallcons.is_empty() {
                        q.cons.wallcons.remove(0);
                    }
                }),
                ("a space added and the first wall moved into it", |q| {
                    let s = space("Snew", SpaceType::CONDITIONED, true, 3.0);
                    let id = s.id;
                    q.spaces.push(s);
                    if let Some(w) = q.walls.first_mut() {
                        w.space = id;
                    }
                }),
                ("first wall removed", |q| {
                    if !q.walls.is_empty() {
                        q.walls.remove(0);
                    }
                }),
            ];
            for (what, f) in edits {
                let mut q = m.clone();
                let _ = check(&q);
                f(&mut q);
                let mut got2: BTreeMap<Uuid, usize> = BTreeMap::new();
                let ws2 = match catch(std::panic::AssertUnwindSafe(|| check(&q))) {
                    Ok(w) => w,
                    Err(p) => {
                        ctx.violation(&format!("check:panic:{}", panic_key(&p)), &format!("the checker panics instead of reporting (after '{}'): {}", what, p), json!({"case": case(), "history": ["check", what, "check"]}));
                        continue;
                    }
                };
                for w in ws2 {
                    if let Some(id) = w.id {
                        *got2.entry(id).or_default() += 1;
                    }
                }
                let exp2 = expected(&q);
                if got2 != exp2 {
                    ctx.violation("check:after-edit", &format!("after a first check, then '{}', the checker reports {:?} but the model as it is now has {:?}", what, got2, exp2), json!({"case": case(), "history": ["check", what, "check"]}));
                }
            }
            // indicators' warnings are the checker's (sub-product)
            let ind = match catch(std::panic::AssertUnwindSafe(|| m.energy_indicators())) {
                Ok(i) => i,
                Err(p) => {
                    ctx.violation(&format!("indicators:panic:{}", panic_key(&p)), &format!("computing the indicators of a model the checker accepts panics: {}", p), case());
                    return;
                }
            };
            let a: Vec<_> = ind.warnings.iter().map(|w| (w.level, w.id, w.msg.clone())).collect();
            let b: Vec<_> = ws.iter().map(|w| (w.level, w.id, w.msg.clone())).collect();
            if a != b {
                ctx.violation("indicators.warnings:differ-from-check", &format!("indicators carry {} warnings, check() {}", a.len(), b.len()), case());
            }
        }
        acc.outcomes.insert(hash64(&got));
    });
    let mut nt = 0;
    for a in &accs {
        ctx.outcome_merge(&a.outcomes);
        nt += a.nontriv;
    }
    ctx.nontriv(nt);
    // real models: closed => no warnings
    for (name, m) in shipped_models() {
        ctx.eval(1);
        let exp = expected(&m);
        let got = check(&m).len();
        if got != exp.values().sum::<usize>() {
            ctx.violation("check:shipped-model", &format!("{}: {} warnings, expected {}", name, got, exp.values().sum::<usize>()), json!({"file": name}));
        }
    }
    ctx.finish(
        "model_checking",
        &format!("full product (an 'absent' id is an id of another collection for the first element of a kind, a present id with its leading hex digit changed for the second, a fresh id from the third on): 0..2 walls x (space{{ok,absent,nil}} x cons{{ok,absent,nil}} x next_to{{None,ok,absent,nil}}, the boundary kind cycling through INTERIOR/EXTERIOR/ADIABATIC/GROUND so that every (next_to option, kind) pair occurs) x 0..{} windows x (wall{{ok,absent,nil}} x cons{{ok,absent}}) x 0..{} bridges x l{{-1,-0.0,0,2,-0.004,-1e-30}} x {{no space with nil id, one}} x {{no element, the last wall, the last window, the last bridge}} has the nil id as its own; user U / obstruction overrides on some of the walls and windows; every fifth model with long names of multi-byte letters at different byte offsets; oracle = number of broken links per element id (reference: set membership, l<0), compared with the number of warnings carrying that id; every 97th model also: JSON unchanged by check(), the histories check -> {{remove last space, remove first construction, add a space and move a wall into it, remove first wall}} -> check on a clone of the checked model, energy_indicators().warnings == check(); + 7 shipped models; non-trivial = at least one broken link expected", 2, ctx.tier.pick(1, 2)),
        true,
        json!({"space_size": n}),
    )
}
