//! C08 (K), C09 (n50), C10 (q_sol;jul), C11 (areas/volumes/compactness/envelope) — E1 enumerations of
//! element configurations in a fixed context, against the reference recomputation of `ind.rs`.

use crate::common::*;
use crate::gen::*;
use crate::ind;
use bemodel::*;
use serde_json::{json, Value};
use std::collections::HashSet;

// ---------------------------------------------------------------- element configurations

#[derive(Clone, Copy, Debug, PartialEq, Eq, Hash)]
pub struct Cfg {
    pub bounds: usize,  // EXTERIOR, INTERIOR, GROUND, ADIABATIC
    pub tilt: usize,    // 0 roof, 1 wall, 2 floor
    pub space: usize,   // SI, SO, missing
    pub next: usize,    // None, SI, SO, missing
    pub ovr: usize,     // wall U override: none, set
    pub cons: usize,    // ok, missing
    pub mult: usize,    // 1, 2.5
    pub win: usize,     // none, resolvable, unresolvable cons, overridden, overridden+unresolvable, whole wall, cons without frame
}

pub const BOUNDS: [BoundaryType; 4] = [BoundaryType::EXTERIOR, BoundaryType::INTERIOR, BoundaryType::GROUND, BoundaryType::ADIABATIC];
pub const TILTS: [f32; 3] = [0.0, 90.0, 180.0];

pub fn cfg_grid() -> Grid {
    Grid::new(&[("bounds", 4), ("tilt", 3), ("space", 3), ("next_to", 4), ("u_override", 2), ("cons", 2), ("multiplier", 2), ("window", 7)])
}

pub fn cfg_of(t: &[usize]) -> Cfg {
    Cfg { bounds: t[0], tilt: t[1], space: t[2], next: t[3], ovr: t[4], cons: t[5], mult: t[6], win: t[7] }
}

/// the 160-configuration core used for ordered pairs
pub fn core_cfgs() -> Vec<Cfg> {
    let mut v = vec![];
    for bounds in 0..4 {
        for tilt in 0..3 {
            for space in 0..2 {
                for win in [0usize, 1, 4, 5, 6] {
                    for mult in 0..2 {
                        let next = if bounds == 1 { if space == 0 { 2 } else { 1 } } else { 0 };
                        v.push(Cfg { bounds, tilt, space, next, ovr: 0, cons: 0, mult, win });
                    }
                }
            }
        }
    }
    v
}

pub fn context(zone_name: &str, mult: f32) -> Model {
    let mut m = model_with_meta(meta(zone(zone_name)));
    let wc = std_cons(&mut m);
    std_wincons(&mut m);
    let mut si = space("SI", SpaceType::CONDITIONED, true, 3.0);
    si.multiplier = mult;
    let mut so = space("SO", SpaceType::UNCONDITIONED, false, 2.7);
    so.n_v = Some(0.5);
    m.spaces.push(si);
    m.spaces.push(so);
    m.walls.push(wall("SI_F", BoundaryType::GROUND, wc, uid("SI"), None, geom(180.0, 0.0, Some([0.0, 4.0, 0.0]), rect(5.0, 4.0))));
    m.walls.push(wall("SO_F", BoundaryType::GROUND, wc, uid("SO"), None, geom(180.0, 0.0, Some([5.0, 4.0, 0.0]), rect(3.0, 4.0))));
    m
}

/// add the element described by cfg (named `name`, placed at offset k)
pub fn add_element(m: &mut Model, c: &Cfg, name: &str, k: usize) {
    let sp = [uid("SI"), uid("SO"), uid("missing-space")][c.space];
    let nt = [None, Some(uid("SI")), Some(uid("SO")), Some(uid("missing-next"))][c.next];
    let cons = [uid("wc"), uid("missing-cons")][c.cons];
    let az = [0.0f32, 90.0, 180.0, -90.0, 45.0][k % 5];
    // the outline of the element: rectangle, parallelogram, or a rectangle written closed away from the origin (all 12 m2)
    let sh = c.space + c.ovr + c.win + c.mult + k;
    let g = match c.tilt {
        0 => geom(0.0, 0.0, Some([0.0, k as f32 * 10.0, 3.0]), shaped(4.0, 3.0, sh)),
        1 => geom(90.0, az, Some([20.0 + k as f32 * 10.0, 0.0, 0.0]), shaped(4.0, 3.0, sh)),
        _ => geom(180.0, 0.0, Some([40.0, 3.0 + k as f32 * 10.0, 0.0]), shaped(4.0, 3.0, sh)),
    };
    let w = wall(name, BOUNDS[c.bounds], cons, sp, nt, g);
    if c.ovr == 1 {
        // (a user value of exactly zero is a user value: every other configuration uses it)
        m.overrides.walls.insert(w.id, WallPropsOverrides { u_value: Some([0.33, 0.0][(c.tilt + c.space + c.next) % 2]), ..Default::default() });
    }
    let wid = w.id;
    m.walls.push(w);
    match c.win {
        0 => {}
        1 => m.windows.push(window(&format!("{name}_v"), uid("winc"), wid, Some([1.0, 1.0]), 1.5, 1.2, 0.0)),
        2 => m.windows.push(window(&format!("{name}_v"), uid("missing-wincons"), wid, Some([1.0, 1.0]), 1.5, 1.2, 0.0)),
        3 => {
            let v = window(&format!("{name}_v"), uid("winc"), wid, Some([1.0, 1.0]), 1.5, 1.2, 0.0);
            m.overrides.windows.insert(v.id, WinPropsOverrides { u_value: Some([1.1, 0.0][(c.bounds + c.mult) % 2]), f_shobst: Some(0.5), ..Default::default() });
            m.windows.push(v);
        }
        5 => {
            // the window covers the whole wall: no net opaque area is left
            m.windows.push(window(&format!("{name}_v"), uid("winc"), wid, Some([0.0, 0.0]), 4.0, 3.0, 0.0));
        }
        6 => {
            // a construction that exists (with its own air permeability) but whose frame does not
            if !m.cons.wincons.iter().any(|c| c.name == "winc-noframe") {
                m.cons.wincons.push(wincons("winc-noframe", uid("gl"), uid("missing-frame"), 0.3, 0.0, Some(0.4), 9.0));
            }
            m.windows.push(window(&format!("{name}_v"), uid("winc-noframe"), wid, Some([1.0, 1.0]), 1.5, 1.2, 0.0));
        }
        _ => {
            // user override on a window whose construction does not resolve
            let v = window(&format!("{name}_v"), uid("missing-wincons"), wid, Some([1.0, 1.0]), 1.5, 1.2, 0.0);
            m.overrides.windows.insert(v.id, WinPropsOverrides { u_value: Some(1.3), f_shobst: None, ..Default::default() });
            m.windows.push(v);
        }
    }
}

pub fn model_single(c: &Cfg) -> Model {
    let mut m = context("D3", [1.0, 2.5][c.mult]);
    add_element(&mut m, c, "X", 0);
    // every third configuration: the inside space owns no floor element (its floor is the ceiling of a space below that
    // is not part of the model) - its elements still carry its multiplier
    if (c.tilt + c.win + c.next) % 3 == 2 && c.tilt != 2 {
        m.walls.retain(|w| w.name != "SI_F");
    }
    m
}

pub fn model_pair(a: &Cfg, b: &Cfg) -> Model {
    let mut m = context("D3", [1.0, 2.5][a.mult]);
    add_element(&mut m, a, "X", 0);
    add_element(&mut m, b, "Y", 1);
    if b.mult != a.mult {
        m.spaces[1].multiplier = [1.0, 2.5][b.mult];
    }
    // a second window of X stored after Y's window: the windows of one wall are not contiguous in the list
    if a.win > 0 && a.win != 5 && b.win > 0 {
        m.windows.push(window("X_v2", uid("winc"), uid("X"), Some([2.8, 0.3]), 0.9, 1.1, 0.0));
    }
    m
}

pub fn indicators(ctx: &Ctx, m: &Model, case: &dyn Fn() -> Value) -> Option<energy::EnergyIndicators> {
    match catch(std::panic::AssertUnwindSafe(|| m.energy_indicators())) {
        Ok(i) => Some(i),
        Err(p) => {
            ctx.violation(&format!("panic:{}", panic_key(&p)), &format!("energy_indicators() panicked: {}", p), case());
            None
        }
    }
}

#[derive(Default)]
struct Acc {
    outcomes: HashSet<u64>,
    n: u64,
    nontriv: u64,
}

fn check_model(ctx: &Ctx, m: &Model, groups: &[&str], case: &dyn Fn() -> Value, acc: &mut Acc, prefix: &str) -> Option<energy::EnergyIndicators> {
    acc.n += 1;
    let ind = indicators(ctx, m, case)?;
    let r = ind::reference(m, &ind);
    for (k, msg) in ind::compare(m, &ind, &r, groups) {
        ctx.violation(&format!("{}{}", prefix, k), &msg, json!({"case": case(), "model": serde_json::to_value(m).unwrap()}));
    }
    Some(ind)
}

// ---------------------------------------------------------------- C08

pub fn run08(ctx: &Ctx) -> i32 {
    let g = cfg_grid();
    let n = g.size();
    let accs = par_fold(n, |i, acc: &mut Acc| {
        let t = g.unrank(i);
        let c = cfg_of(&t);
        let m = model_single(&c);
        let case = || json!({"part": "single", "cfg": g.describe(&t)});
        if let Some(ind) = check_model(ctx, &m, &["K"], &case, acc, "") {
            if ind.K_data.summary.a > 0.0 {
                acc.nontriv += 1;
            }
            acc.outcomes.insert(ind.K_data.K.to_bits() as u64);
        }
    });
    let core = core_cfgs();
    let np = (core.len() * core.len()) as u64;
    let accs2 = par_fold(np, |i, acc: &mut Acc| {
        let (a, b) = (&core[(i as usize) / core.len()], &core[(i as usize) % core.len()]);
        let m = model_pair(a, b);
        let case = || json!({"part": "pair", "a": format!("{:?}", a), "b": format!("{:?}", b)});
        if let Some(ind) = check_model(ctx, &m, &["K"], &case, acc, "") {
            acc.nontriv += 1;
            acc.outcomes.insert(ind.K_data.K.to_bits() as u64);
            // permutation / relabel invariance on every 5th pair
            if i % 5 == 0 {
                let mut p = m.clone();
                p.walls.reverse();
                p.windows.reverse();
                p.spaces.reverse();
                if let Some(ind2) = indicators(ctx, &p, &case) {
                    if ind2.K_data.K.to_bits() != ind.K_data.K.to_bits() {
                        let both_ground_floor_same_space = (a.bounds == 2 && a.tilt == 2 && a.space < 2) || (b.bounds == 2 && b.tilt == 2 && b.space < 2);
                        ctx.violation(
                            &format!("K:order-dependent{}", if both_ground_floor_same_space { ":several-ground-slabs-in-one-space" } else { "" }),
                            &format!("K={} but {} after reversing the element lists", ind.K_data.K, ind2.K_data.K),
                            json!({"case": case(), "model": serde_json::to_value(&m).unwrap()}),
                        );
                    }
                }
                // relabel: rename X <-> Y ids (swap names => ids change)
                let mut q = m.clone();
                let (ix, iy) = (uid("X"), uid("Y"));
                let (nx, ny) = (uid("renamed-zzz"), uid("renamed-aaa"));
                let ren = |id: Uuid| if id == ix { nx } else if id == iy { ny } else { id };
                for w in q.walls.iter_mut() {
                    w.id = ren(w.id);
                }
                for v in q.windows.iter_mut() {
                    v.wall = ren(v.wall);
                }
                let ow: Vec<_> = q.overrides.walls.iter().map(|(k, v)| (ren(*k), v.clone())).collect();
                q.overrides.walls = ow.into_iter().collect();
                if let Some(ind3) = indicators(ctx, &q, &case) {
                    if !ind::close(ind3.K_data.K as f64, ind.K_data.K as f64, 1e-6, 1e-4) {
                        ctx.violation("K:name-dependent", &format!("K={} but {} after renaming the elements", ind.K_data.K, ind3.K_data.K), json!({"case": case(), "model": serde_json::to_value(&m).unwrap()}));
                    }
                }
            }
        }
    });
    // bridges: 9 kinds x l x psi
    let kinds = [ThermalBridgeKind::ROOF, ThermalBridgeKind::BALCONY, ThermalBridgeKind::CORNER, ThermalBridgeKind::INTERMEDIATEFLOOR, ThermalBridgeKind::INTERNALWALL, ThermalBridgeKind::GROUNDFLOOR, ThermalBridgeKind::PILLAR, ThermalBridgeKind::WINDOW, ThermalBridgeKind::GENERIC];
    let ls = [-1.0f32, -0.0, 0.0, 2.5];
    let psis = [0.0f32, 0.1, -0.05];
    let mut acc3 = Acc::default();
    let mut all = model_single(&cfg_of(&[0, 1, 0, 0, 0, 0, 0, 1]));
    for (ki, k) in kinds.iter().enumerate() {
        for (li, l) in ls.iter().enumerate() {
            for (pi, p) in psis.iter().enumerate() {
                let tb = ThermalBridge { id: uid(&format!("tb-{ki}-{li}-{pi}")), name: "tb".into(), kind: *k, l: *l, psi: *p, ..Default::default() };
                let mut m = model_single(&cfg_of(&[0, 1, 0, 0, 0, 0, 0, 1]));
                m.thermal_bridges.push(tb.clone());
                all.thermal_bridges.push(tb);
                let case = || json!({"part": "bridge", "kind": format!("{:?}", k), "l": l, "psi": p});
                check_model(ctx, &m, &["K"], &case, &mut acc3, "");
                acc3.nontriv += 1;
            }
        }
    }
    check_model(ctx, &all, &["K"], &|| json!({"part": "all-bridges"}), &mut acc3, "");
    // real models
    for (name, m) in shipped_models() {
        let case = || json!({"part": "shipped", "file": name});
        if let Some(ind) = check_model(ctx, &m, &["K"], &case, &mut acc3, "") {
            acc3.outcomes.insert(ind.K_data.K.to_bits() as u64);
            acc3.nontriv += 1;
        }
    }
    for a in accs.iter().chain(accs2.iter()).chain(std::iter::once(&acc3)) {
        ctx.eval(a.n);
        ctx.nontriv(a.nontriv);
        ctx.outcome_merge(&a.outcomes);
    }
    ctx.sample(json!({"part": "single", "cfg": g.describe(&g.unrank(n / 3))}));
    ctx.sample(json!({"part": "pair", "a": format!("{:?}", core[5]), "b": format!("{:?}", core[77])}));
    ctx.finish(
        "model_checking",
        "all 8064 single-element configurations (bounds 4 x tilt 3 x space{inside,outside,missing} x next_to{None,inside,outside,missing} x U override{-,set: 0.33 or exactly 0 alternating} x construction{ok,missing} x multiplier{1,2.5} x window{none,resolvable,unresolvable construction,overridden,overridden+unresolvable,covering the whole wall,construction present but frame missing}) in a fixed two-space context (every third configuration without the floor element of the inside space); all 25600 ordered pairs over a 160-configuration core (when both elements have a window the first wall gets a second window stored after the second wall's, so its windows are not contiguous in the list; + list reversal and id relabeling on every 5th pair); 9 bridge kinds x l{-1,-0.0,0,2.5} x psi{0,.1,-.05} singly and all together; 7 shipped models; oracle: K, totals, categories, u_min/u_max/u_mean, bridge sums recomputed in f64 from the model by the statement's formula (wall U from Wall::u_value, window U from the C07 formula) with an interval for the 0.01 m2 rounding of net areas; non-trivial = envelope area > 0",
        true,
        json!({"singles": n, "pairs": np}),
    )
}

// ---------------------------------------------------------------- C09

pub fn run09(ctx: &Ctx) -> i32 {
    let g = cfg_grid();
    let n = g.size() * 4;
    let accs = par_fold(n, |i, acc: &mut Acc| {
        let t = g.unrank(i / 4);
        let c = cfg_of(&t);
        let mut m = model_single(&c);
        m.meta.is_new_building = i % 2 == 0;
        m.meta.n50_test_ach = if (i / 2) % 2 == 0 { None } else { Some(3.0) };
        // second wincons with another permeability on a second window when there is one
        if c.win == 1 {
            m.cons.wincons.push(wincons("winc9", uid("gl"), uid("fr"), 0.3, 0.0, None, 9.0));
            let wid = m.walls.last().unwrap().id;
            m.windows.push(window("X_v2", uid("winc9"), wid, Some([3.0, 0.5]), 0.8, 0.8, 0.0));
        }
        let case = || json!({"part": "single", "cfg": g.describe(&t), "new_building": m.meta.is_new_building, "n50_test": m.meta.n50_test_ach});
        if let Some(ind) = check_model(ctx, &m, &["n50"], &case, acc, "") {
            if ind.n50_data.walls_a > 0.0 || ind.n50_data.windows_a > 0.0 {
                acc.nontriv += 1;
            }
            acc.outcomes.insert(ind.n50_data.n50.to_bits() as u64 ^ ((ind.n50_data.walls_c.to_bits() as u64) << 20));
        }
    });
    let core = core_cfgs();
    let np = (core.len() * core.len()) as u64;
    let accs2 = par_fold(np * 2, |i, acc: &mut Acc| {
        let j = (i / 2) as usize;
        let (a, b) = (&core[j / core.len()], &core[j % core.len()]);
        let mut m = model_pair(a, b);
        m.meta.n50_test_ach = if i % 2 == 0 { None } else { Some(1.7) };
        m.meta.is_new_building = j % 3 != 0;
        let case = || json!({"part": "pair", "a": format!("{:?}", a), "b": format!("{:?}", b), "n50_test": m.meta.n50_test_ach});
        if let Some(ind) = check_model(ctx, &m, &["n50"], &case, acc, "") {
            acc.nontriv += 1;
            acc.outcomes.insert(ind.n50_data.n50.to_bits() as u64);
        }
    });
    let mut acc3 = Acc::default();
    // corner cases
    {
        // V = 0: no floors at all
        let mut m = context("D3", 1.0);
        m.walls.clear();
        add_element(&mut m, &cfg_of(&[0, 1, 0, 0, 0, 0, 0, 1]), "X", 0);
        for test in [None, Some(3.0)] {
            m.meta.n50_test_ach = test;
            if let Some(ind) = check_model(ctx, &m, &["n50"], &|| json!({"part": "corner", "case": "zero volume", "test": test}), &mut acc3, "") {
                if ind.n50_data.n50_ref != 0.0 || !ind.n50_data.n50.is_finite() {
                    ctx.violation("n50.zero-volume", &format!("n50_ref={} n50={} with V=0", ind.n50_data.n50_ref, ind.n50_data.n50), json!({"part": "corner", "case": "zero volume"}));
                }
            }
        }
        // wall fully replaced by its window (A_o = 0)
        let mut m = context("D3", 1.0);
        m.walls.push(wall("X", BoundaryType::EXTERIOR, uid("wc"), uid("SI"), None, geom(90.0, 0.0, Some([0.0, 0.0, 0.0]), rect(4.0, 3.0))));
        m.windows.push(window("X_v", uid("winc"), uid("X"), Some([0.0, 0.0]), 4.0, 3.0, 0.0));
        for test in [None, Some(3.0)] {
            m.meta.n50_test_ach = test;
            if let Some(ind) = check_model(ctx, &m, &["n50"], &|| json!({"part": "corner", "case": "A_o = 0", "test": test}), &mut acc3, "") {
                if !ind.n50_data.walls_c.is_finite() || !ind.n50_data.n50.is_finite() {
                    ctx.violation("n50.zero-wall-area", &format!("non finite n50 data with A_o = 0: {:?}", ind.n50_data), json!({"part": "corner", "case": "A_o = 0"}));
                }
            }
        }
        // only ground / adiabatic / interior elements
        let mut m = context("D3", 1.0);
        add_element(&mut m, &cfg_of(&[3, 1, 0, 0, 0, 0, 0, 1]), "X", 0);
        add_element(&mut m, &cfg_of(&[1, 1, 0, 2, 0, 0, 0, 1]), "Y", 1);
        add_element(&mut m, &cfg_of(&[2, 1, 0, 0, 0, 0, 0, 1]), "Z", 2);
        if let Some(ind) = check_model(ctx, &m, &["n50"], &|| json!({"part": "corner", "case": "no exterior element"}), &mut acc3, "") {
            if ind.n50_data.walls_a != 0.0 || ind.n50_data.windows_a != 0.0 {
                ctx.violation("n50.non-exterior-included", &format!("areas {} / {} from ground/adiabatic/interior elements", ind.n50_data.walls_a, ind.n50_data.windows_a), json!({"part": "corner"}));
            }
        }
        acc3.nontriv += 5;
        // angles written outside [0, 180]: a roof at 360 / 330 / 390 / -30 / 720 / -360 is a roof, a floor at -180 / 540 / 200 / -150
        // is a floor - the volume V counts the second kind and not the first, whatever the way the angle is written
        let roofs = [0.0f32, 360.0, 330.0, 390.0, -30.0, 720.0, -360.0, 300.0];
        let floors = [180.0f32, -180.0, 540.0, 200.0, -150.0, 239.0, 120.0];
        for (ri, rt) in roofs.iter().enumerate() {
            for (fi, ft) in floors.iter().enumerate() {
                for bounds in [BoundaryType::EXTERIOR, BoundaryType::GROUND] {
                    let mut m = context("D3", [1.0, 2.0][(ri + fi) % 2]);
                    m.walls[0].geometry.tilt = *ft;
                    m.walls[0].bounds = bounds;
                    m.walls.push(wall("R", BoundaryType::EXTERIOR, uid("wc"), uid("SI"), None, geom(*rt, 0.0, Some([0.0, 0.0, 3.0]), rect(5.0, 4.0))));
                    m.walls.push(wall("X", BoundaryType::EXTERIOR, uid("wc"), uid("SI"), None, geom(90.0, 0.0, Some([0.0, 0.0, 0.0]), rect(5.0, 3.0))));
                    m.windows.push(window("X_v", uid("winc"), uid("X"), Some([1.0, 1.0]), 1.5, 1.2, 0.0));
                    for test in [None, Some(3.0)] {
                        m.meta.n50_test_ach = test;
                        if let Some(ind) = check_model(ctx, &m, &["n50"], &|| json!({"part": "angles-outside-0-180", "roof_tilt": rt, "floor_tilt": ft, "floor_bounds": format!("{:?}", bounds), "test": test}), &mut acc3, "") {
                            acc3.outcomes.insert(ind.n50_data.n50.to_bits() as u64 ^ ((ind.n50_data.vol.to_bits() as u64) << 24));
                            acc3.nontriv += 1;
                        }
                    }
                }
            }
        }
    }
    for (name, m) in shipped_models() {
        for test in [None, Some(2.5f32)] {
            let mut m = m.clone();
            if test.is_some() {
                m.meta.n50_test_ach = test;
            }
            if let Some(ind) = check_model(ctx, &m, &["n50"], &|| json!({"part": "shipped", "file": name, "test": test}), &mut acc3, "") {
                acc3.outcomes.insert(ind.n50_data.n50.to_bits() as u64);
                acc3.nontriv += 1;
            }
        }
    }
    for a in accs.iter().chain(accs2.iter()).chain(std::iter::once(&acc3)) {
        ctx.eval(a.n);
        ctx.nontriv(a.nontriv);
        ctx.outcome_merge(&a.outcomes);
    }
    ctx.sample(json!({"part": "single", "cfg": g.describe(&g.unrank(1234)), "new_building": true, "n50_test": 3.0}));
    ctx.finish(
        "model_checking",
        "the 4608 single-element configurations of C08 x {new, existing} x blower-door {None, 3.0} (+ a second window with another permeability), all 9216 ordered pairs of the 96-configuration core x test {None, 1.7}, corner cases (zero volume, wall fully replaced by its window, only ground/adiabatic/interior elements), a box whose roof is written at tilt {0,360,330,390,-30,720,-360,300} x whose floor is written at {180,-180,540,200,-150,239,120} x floor {EXTERIOR,GROUND} x test {None,3.0} (224 models: the volume counts floors and not roofs however the angle is written), 7 shipped models x {as is, with test}; oracle: the statement's formula in f64 (areas, C_o, sum C_h A_h, V, n50_ref), n50 == test value and back-substitution of the reported wall permeability into the same equation; non-trivial = some exterior envelope area",
        true,
        json!({"singles": n, "pairs": np * 2}),
    )
}

// ---------------------------------------------------------------- C10

fn az_alphabet() -> Vec<f32> {
    let mut v = vec![];
    for b in [18.0f32, 69.0, 120.0, 157.5, 202.5, 240.0, 291.0, 342.0] {
        v.push(b - 0.01);
        v.push(b);
        v.push(b + 0.01);
    }
    v.extend([0.0, 45.0, 90.0, 135.0, 180.0, 225.0, 270.0, 315.0]);
    v.extend([-90.0, -179.99, 359.99, 765.0, -45.0]);
    v
}

const C10_TILTS: [f32; 11] = [0.0, 59.99, 60.0, 60.01, 90.0, 120.0, 180.0, 330.0, 360.0, 390.0, -30.0];

fn c10_model(zone_name: &str, az: f32, tilt: f32, fsh: usize, cons: usize, mult: f32, bounds: usize) -> Model {
    let mut m = context(zone_name, mult);
    let u_only_entry = fsh == 3;
    let fsh = if fsh == 3 { 1 } else { fsh };
    let pos = if fsh == 1 { Some([20.0, 0.0, 0.0]) } else { None };
    // (a wall towards outside air may still name the space it once separated from: every other azimuth does, naming its own space)
    let leftover = bounds != 1 && (az.to_bits() >> 3) % 2 == 1;
    let w = wall("X", BOUNDS[bounds], uid("wc"), uid("SI"), if bounds == 1 { Some(uid("SO")) } else if leftover { Some(uid("SI")) } else { None }, geom(tilt, az, pos, rect(4.0, 3.0)));
    let wid = w.id;
    m.walls.push(w);
    let c = match cons {
        0 => uid("winc"),
        1 => uid("missing-wincons"),
        _ => {
            // a construction that exists, with a frame share and a shading factor of its own, whose glazing does not
            m.cons.wincons.push(wincons("winc-dg", uid("dangling-glass"), uid("fr"), 0.35, 0.0, Some(0.3), 27.0));
            uid("winc-dg")
        }
    };
    let v = window("X_v", c, wid, if fsh == 1 { Some([1.0, 1.0]) } else { None }, 1.5, 1.2, 0.0);
    if fsh == 0 {
        m.overrides.windows.insert(v.id, WinPropsOverrides { u_value: None, f_shobst: Some(0.37), ..Default::default() });
    }
    if u_only_entry {
        // an override entry that fixes only the U-value: the obstruction factor is still the computed one
        m.overrides.windows.insert(v.id, WinPropsOverrides { u_value: Some(2.0), f_shobst: None, ..Default::default() });
    }

    m.windows.push(v);
    // a shade in front so that the computed factor is not trivially 1
    if fsh == 1 {
        m.shades.push(Shade { id: uid("sh"), name: "sh".into(), geometry: geom(0.0, 0.0, Some([15.0, -8.0, 3.5]), rect(14.0, 16.0)), ..Default::default() });
    }
    m
}

pub fn run10(ctx: &Ctx) -> i32 {
    let zones: Vec<&str> = match ctx.tier {
        // quick: zones that share the summer-severity digit within the same region (D3/B3, A3c/Alfa3c) and one that does not
        Tier::Quick => vec!["D3", "B3", "C3", "A3c", "Alfa3c", "B3c", "E1", "D1", "A4", "B4", "Alfa1c", "D2c"],
        Tier::Thorough => ALL_ZONES.to_vec(),
    };
    let azs = az_alphabet();
    let g = Grid::new(&[("zone", zones.len()), ("azimuth", azs.len()), ("tilt", C10_TILTS.len()), ("f_shobst{override,computed,none,computed + U-only override entry}", 4), ("cons{ok,missing,present with a dangling glazing}", 3), ("mult", 2), ("bounds", 4)]);
    let n = g.size();
    let accs = par_fold(n, |i, acc: &mut Acc| {
        let t = g.unrank(i);
        let m = c10_model(zones[t[0]], azs[t[1]], C10_TILTS[t[2]], t[3], t[4], [1.0, 3.0][t[5]], t[6]);
        let case = || json!({"part": "single", "zone": zones[t[0]], "azimuth": azs[t[1]], "tilt": C10_TILTS[t[2]], "f_shobst(0 override,1 computed,2 none,3 computed+U-only entry)": t[3], "cons(0 ok,1 missing)": t[4], "mult_idx": t[5], "bounds": format!("{:?}", BOUNDS[t[6]])});
        if let Some(ind) = check_model(ctx, &m, &["qsoljul"], &case, acc, "") {
            if t[3] == 3 {
                // differential oracle: the same model without the U-only override entry has the same solar gains
                let m1 = c10_model(zones[t[0]], azs[t[1]], C10_TILTS[t[2]], 1, t[4], [1.0, 3.0][t[5]], t[6]);
                let q1 = m1.energy_indicators().q_soljul_data;
                let q = &ind.q_soljul_data;
                if q.Q_soljul.to_bits() != q1.Q_soljul.to_bits() || q.fshobst_mean.to_bits() != q1.fshobst_mean.to_bits() {
                    ctx.violation("qsoljul:changed-by-U-only-override", &format!("an override entry that fixes only the U-value of the window changes the solar gains: Q_soljul {} vs {}, fshobst_mean {} vs {}", q.Q_soljul, q1.Q_soljul, q.fshobst_mean, q1.fshobst_mean), case());
                }
            }
            if ind.q_soljul_data.a_wp > 0.0 {
                acc.nontriv += 1;
            }
            acc.outcomes.insert(ind.q_soljul_data.Q_soljul.to_bits() as u64);
        }
    });
    // pairs: two windows on differently oriented walls / constructions
    let pa: Vec<(f32, f32, usize, f32)> = {
        let mut v = vec![];
        for az in [0.0f32, 90.0, 180.0, -90.0, 45.0, 17.99] {
            for tilt in [90.0f32, 0.0] {
                for cons in 0..2 {
                    for mult in [1.0f32, 3.0] {
                        v.push((az, tilt, cons, mult));
                    }
                }
            }
        }
        v
    };
    let np = (zones.len() * pa.len() * pa.len()) as u64;
    let accs2 = par_fold(np, |i, acc: &mut Acc| {
        let z = zones[(i as usize) / (pa.len() * pa.len())];
        let j = (i as usize) % (pa.len() * pa.len());
        let (a, b) = (pa[j / pa.len()], pa[j % pa.len()]);
        let mut m = c10_model(z, a.0, a.1, 2, a.2, a.3, 0);
        let w = wall("Y", BoundaryType::EXTERIOR, uid("wc"), uid("SO"), None, geom(b.1, b.0, None, rect(4.0, 3.0)));
        m.spaces[1].inside_tenv = true;
        m.spaces[1].multiplier = b.3;
        m.walls.push(w);
        // (every other pair declares a fully opaque shading device: 0 is a declared value)
        m.cons.wincons.push(wincons("winc2", uid("gl"), uid("fr"), 0.45, 0.0, Some([0.2f32, 0.0][j % 2]), 9.0));
        m.windows.push(window("Y_v", if b.2 == 0 { uid("winc2") } else { uid("missing") }, uid("Y"), None, 2.0, 1.0, 0.0));
        let case = || json!({"part": "pair", "zone": z, "a(az,tilt,cons,mult)": format!("{:?}", a), "b": format!("{:?}", b)});
        if let Some(ind) = check_model(ctx, &m, &["qsoljul"], &case, acc, "") {
            acc.nontriv += 1;
            acc.outcomes.insert(ind.q_soljul_data.Q_soljul.to_bits() as u64);
        }
    });
    let mut acc3 = Acc::default();
    // no window / no envelope window / a_ref = 0
    for z in &zones {
        let m = context(z, 1.0);
        check_model(ctx, &m, &["qsoljul"], &|| json!({"part": "corner", "case": "no window", "zone": z}), &mut acc3, "");
        let mut m = c10_model(z, 0.0, 90.0, 2, 0, 1.0, 0);
        m.walls.last_mut().unwrap().space = uid("SO"); // window only in a wall outside the envelope
        check_model(ctx, &m, &["qsoljul"], &|| json!({"part": "corner", "case": "no envelope window", "zone": z}), &mut acc3, "");
        let mut m = c10_model(z, 0.0, 90.0, 2, 0, 1.0, 0);
        m.walls.retain(|w| w.name != "SI_F"); // a_ref = 0
        check_model(ctx, &m, &["qsoljul"], &|| json!({"part": "corner", "case": "a_ref = 0", "zone": z}), &mut acc3, "");
        acc3.nontriv += 3;
    }
    for (name, m) in shipped_models() {
        for z in &zones {
            let mut m = m.clone();
            m.meta.climate = zone(z);
            if let Some(ind) = check_model(ctx, &m, &["qsoljul"], &|| json!({"part": "shipped", "file": name, "zone": z}), &mut acc3, "") {
                acc3.outcomes.insert(ind.q_soljul_data.Q_soljul.to_bits() as u64);
                acc3.nontriv += 1;
            }
        }
    }
    for a in accs.iter().chain(accs2.iter()).chain(std::iter::once(&acc3)) {
        ctx.eval(a.n);
        ctx.nontriv(a.nontriv);
        ctx.outcome_merge(&a.outcomes);
    }
    let t = g.unrank(n / 2 + 7);
    ctx.sample(json!({"part": "single", "zone": zones[t[0]], "azimuth": azs[t[1]], "tilt": C10_TILTS[t[2]], "f_shobst": t[3], "cons": t[4], "mult": t[5], "bounds": t[6]}));
    ctx.finish(
        "model_checking",
        &format!("full product zones({}) x 37 azimuths (every orientation-class boundary -0.01/0/+0.01, class centres, negative and >360 equivalents) x tilt{{0,59.99,60,60.01,90,120,180,330,360,390,-30}} x F_sh,obst{{override,computed with a shade,none,computed with a shade + an override entry fixing only U (gains bit-identical to the model without the entry)}} x construction{{ok,missing}} x multiplier{{1,3}} x bounds(4) (non-interior walls of every other azimuth carry a left-over adjacent-space reference); ordered pairs of 48 window configurations per zone; models without window / without envelope window / zero reference area; shipped models re-zoned; oracle: gains, q, a_wp, area-weighted means and per-orientation breakdown from the statement's formula in f64 with H looked up in MONTHLYRADDATA (dir[6]+dif[6]) by an independent orientation classifier; non-trivial = envelope window area > 0", zones.len()),
        true,
        json!({"singles": n, "pairs": np}),
    )
}

// ---------------------------------------------------------------- C11 (a)(b)(c); (d) lives in c11.rs

fn scale_model(m: &Model, s: f32) -> Model {
    let mut q = m.clone();
    for sp in q.spaces.iter_mut() {
        sp.height *= s;
        sp.z *= s;
    }
    for w in q.walls.iter_mut() {
        for p in w.geometry.polygon.iter_mut() {
            p.x *= s;
            p.y *= s;
        }
        if let Some(p) = w.geometry.position.as_mut() {
            p.x *= s;
            p.y *= s;
            p.z *= s;
        }
    }
    for v in q.windows.iter_mut() {
        v.geometry.width *= s;
        v.geometry.height *= s;
        v.geometry.setback *= s;
        if let Some(p) = v.geometry.position.as_mut() {
            p.x *= s;
            p.y *= s;
        }
    }
    for c in q.cons.wallcons.iter_mut() {
        for l in c.layers.iter_mut() {
            l.e *= s;
        }
    }
    q
}

/// generated building for aggregates: per space (kind, inside, mult, floors{1,2}, ceiling{none, own roof, other's floor above, own ceiling under the space above})
fn agg_model(specs: &[usize]) -> Model {
    let mut m = model_with_meta(meta(zone("D3")));
    let wc = std_cons(&mut m);
    m.cons.wallcons.push(wallcons("slab", &[(uid("conc"), 0.25)]));
    m.meta.global_ventilation_l_s = Some(25.0);
    let kinds = [SpaceType::CONDITIONED, SpaceType::UNCONDITIONED, SpaceType::UNINHABITED];
    let mults = [1.0f32, 2.0, 0.5];
    for (i, sp) in specs.iter().enumerate() {
        let (k, inside, mu, floors, ceil) = (sp % 3, (sp / 3) % 2, (sp / 6) % 3, (sp / 18) % 2, (sp / 36) % 4);
        let name = format!("s{i}");
        let mut s = space(&name, kinds[k], inside == 0, 3.0 + i as f32 * 0.2);
        s.multiplier = mults[mu];
        if kinds[k] == SpaceType::UNINHABITED {
            s.n_v = Some(1.0);
        }
        let sid = s.id;
        m.spaces.push(s);
        let x0 = i as f32 * 10.0;
        m.walls.push(wall(&format!("{name}_F1"), BoundaryType::GROUND, wc, sid, None, geom(180.0, 0.0, Some([x0, 4.0, 0.0]), shaped(5.0, 4.0, i + sp / 3))));
        if floors == 1 {
            m.walls.push(wall(&format!("{name}_F2"), BoundaryType::EXTERIOR, wc, sid, None, geom(180.0, 0.0, Some([x0 + 5.0, 4.0, 0.0]), rect(2.0, 4.0))));
        }
        m.walls.push(wall(&format!("{name}_S"), BoundaryType::EXTERIOR, wc, sid, None, geom(90.0, 0.0, Some([x0, 0.0, 0.0]), shaped(5.0, 3.0, i + sp / 6 + 1))));
        match ceil {
            0 => {}
            1 => m.walls.push(wall(&format!("{name}_R"), BoundaryType::EXTERIOR, uid("slab"), sid, None, geom(0.0, 0.0, Some([x0, 0.0, 3.0]), rect(5.0, 4.0)))),
            _ => {
                // the ceiling is the floor of an upper space (owned by the upper space, next_to = this one)
                let up = format!("{name}_up");
                let mut u = space(&up, SpaceType::CONDITIONED, true, 2.5);
                u.z = 3.0;
                let upid = u.id;
                m.spaces.push(u);
                if ceil == 2 {
                    m.walls.push(wall(&format!("{up}_F"), BoundaryType::INTERIOR, uid("slab"), upid, Some(sid), geom(180.0, 0.0, Some([x0, 4.0, 3.0]), rect(5.0, 4.0))));
                } else {
                    // the same slab given from below: owned by this space, next to the upper one (which then has no floor of its own)
                    m.walls.push(wall(&format!("{name}_C"), BoundaryType::INTERIOR, uid("slab"), sid, Some(upid), geom(0.0, 0.0, Some([x0, 0.0, 3.0]), rect(5.0, 4.0))));
                }
            }
        }
    }
    m
}

pub fn run11(ctx: &Ctx) -> i32 {
    let mut all_accs: Vec<Acc> = vec![];
    // (a) envelope rule on the 4608 configurations (+ areas)
    let g = cfg_grid();
    let n = g.size();
    all_accs.extend(par_fold(n, |i, acc: &mut Acc| {
        let t = g.unrank(i);
        let c = cfg_of(&t);
        let mut m = model_single(&c);
        m.meta.global_ventilation_l_s = Some(30.0);
        let case = || json!({"part": "envelope-rule", "cfg": g.describe(&t)});
        if let Some(ind) = check_model(ctx, &m, &["tenv", "areas"], &case, acc, "") {
            acc.nontriv += 1;
            let x = ind.props.walls.get(&uid("X")).map(|w| w.is_tenv);
            acc.outcomes.insert(hash64(&(x, ind.area_ref.to_bits(), ind.compactness.to_bits())));
        }
    }));
    // (b) aggregates
    let nspec = 144u64;
    let maxsp = ctx.tier.pick(2, 3);
    let mut total_b = 0;
    for k in 1..=maxsp {
        let nk = nspec.pow(k);
        total_b += nk;
        all_accs.extend(par_fold(nk, |i, acc: &mut Acc| {
            let mut specs = vec![];
            let mut j = i;
            for _ in 0..k {
                specs.push((j % nspec) as usize);
                j /= nspec;
            }
            let m = agg_model(&specs);
            let case = || json!({"part": "aggregates", "specs(kind+3*outside+6*mult+18*two_floors+36*ceiling)": specs});
            if let Some(ind) = check_model(ctx, &m, &["tenv", "areas"], &case, acc, "") {
                acc.nontriv += 1;
                acc.outcomes.insert(hash64(&(ind.area_ref.to_bits(), ind.vol_env_net.to_bits(), ind.compactness.to_bits())));
                // the same elements stored in another order (the walls of one space no longer next to each other, spaces
                // reversed): every 5th model
                if i % 5 == 0 && k >= 2 {
                    let mut q = m.clone();
                    let mut groups: Vec<Vec<Wall>> = vec![];
                    for w in q.walls.drain(..) {
                        match groups.iter_mut().find(|g| g[0].space == w.space) {
                            Some(g) => g.push(w),
                            None => groups.push(vec![w]),
                        }
                    }
                    let longest = groups.iter().map(|g| g.len()).max().unwrap_or(0);
                    for r in 0..longest {
                        for g in &groups {
                            if let Some(w) = g.get(r) {
                                q.walls.push(w.clone());
                            }
                        }
                    }
                    q.spaces.reverse();
                    let case2 = || json!({"part": "aggregates, walls stored round-robin across spaces", "specs": specs});
                    check_model(ctx, &q, &["tenv", "areas"], &case2, acc, "");
                }
                // (c) scaling on every 7th
                if i % 7 == 0 {
                    for s in [0.25f32, 0.5, 2.0, 4.0] {
                        let q = scale_model(&m, s);
                        acc.n += 1;
                        if let Some(i2) = indicators(ctx, &q, &case) {
                            let s2 = (s * s) as f64;
                            let s3 = s2 * s as f64;
                            let chk = |name: &str, a: f32, b: f32, f: f64, slack: f64| {
                                if !ind::close(b as f64, a as f64 * f, slack, 2e-5) {
                                    ctx.violation(&format!("scaling:{}", name), &format!("{}: {} at scale 1, {} at scale {} (expected x{})", name, a, b, s, f), json!({"case": case(), "scale": s, "model": serde_json::to_value(&m).unwrap()}));
                                }
                            };
                            chk("area_ref", ind.area_ref, i2.area_ref, s2, 0.0051 * (1.0 + s2));
                            chk("vol_env_gross", ind.vol_env_gross, i2.vol_env_gross, s3, 0.0051 * (1.0 + s3));
                            let at = ind.vol_env_gross as f64 / 2.5; // upper bound of the floor area inside the envelope (heights >= 2.5)
                            chk("vol_env_net", ind.vol_env_net, i2.vol_env_net, s3, 0.0051 * (1.0 + s3) + 0.00051 * at * (s2 + s3));
                            let ea = if ind.compactness > 0.0 { ind.vol_env_gross as f64 / ind.compactness as f64 } else { 1.0 };
                            chk("compactness", ind.compactness, i2.compactness, s as f64, 0.0051 * (1.0 + s3) / (ea * s2).max(1e-6) + 1e-4);
                        }
                    }
                }
            }
        }));
    }
    let mut acc3 = Acc::default();
    for (name, m) in shipped_models() {
        let case = || json!({"part": "shipped", "file": name});
        if check_model(ctx, &m, &["tenv", "areas"], &case, &mut acc3, "").is_some() {
            acc3.nontriv += 1;
        }
    }
    all_accs.push(acc3);
    // (a') the rate used inside the U-value calculation is the reported one also on a second evaluation of one model
    // object whose volume was edited in between: a partition towards an unconditioned space without a rate of its own
    // gets the U-value a fresh copy of the edited model gets (evaluated on another thread), and the reported rates agree
    {
        let mut hist = Acc::default();
        for (k, (mult, dh, flow)) in [(1.0f32, 3.0f32, 30.0f32), (2.5, 1.5, 30.0), (1.0, 0.5, 12.5), (2.5, 3.0, 60.0)].into_iter().enumerate() {
            let mut m = context("D3", mult);
            m.meta.global_ventilation_l_s = Some(flow);
            m.spaces[1].n_v = None;
            m.walls.push(wall("X", BoundaryType::INTERIOR, uid("wc"), uid("SI"), Some(uid("SO")), geom(90.0, 0.0, Some([0.0, 4.0, 0.0]), rect(4.0, 3.0))));
            m.walls.push(wall("SO_S", BoundaryType::EXTERIOR, uid("wc"), uid("SO"), None, geom(90.0, 0.0, Some([5.0, 0.0, 0.0]), rect(3.0, 2.7))));
            let first = m.energy_indicators();
            m.spaces[0].height += dh;
            let second = m.energy_indicators();
            let q = m.clone();
            let fresh = std::thread::spawn(move || q.energy_indicators()).join();
            hist.n += 3;
            let case = || json!({"part": "ventilation-rate-history", "variant": k, "multiplier": mult, "height_added": dh, "l_s": flow});
            match fresh {
                Ok(fresh) => {
                    hist.nontriv += 1;
                    let u = |i: &energy::EnergyIndicators| i.props.walls.get(&uid("X")).and_then(|w| w.u_value);
                    if u(&second) != u(&fresh) || second.props.global.global_ventilation_rate.to_bits() != fresh.props.global.global_ventilation_rate.to_bits() {
                        ctx.violation("ventilation-rate:stale-after-edit", &format!("after the first evaluation (partition U {:?}, rate {}) the conditioned space was made {} m higher: the same object gives U {:?} at rate {}, a fresh copy of it U {:?} at rate {}", u(&first), first.props.global.global_ventilation_rate, dh, u(&second), second.props.global.global_ventilation_rate, u(&fresh), fresh.props.global.global_ventilation_rate), case());
                    }
                    hist.outcomes.insert(hash64(&(u(&second).map(f32::to_bits), k)));
                }
                Err(_) => ctx.violation("ventilation-rate:panic-on-fresh-copy", "evaluating a fresh copy on another thread panicked", case()),
            }
        }
        all_accs.push(hist);
    }
    // (d) classifier sweep
    let swept = crate::c11::sweep(ctx);
    for a in &all_accs {
        ctx.eval(a.n);
        ctx.nontriv(a.nontriv);
        ctx.outcome_merge(&a.outcomes);
    }
    ctx.sample(json!({"part": "envelope-rule", "cfg": g.describe(&g.unrank(777))}));
    ctx.sample(json!({"part": "aggregates", "specs": [17, 93]}));
    ctx.finish(
        "model_checking",
        &format!("(a) envelope membership + areas/volumes/compactness/ventilation-rate on the 4608 single-element configurations of C08; (a') four histories evaluate - make the conditioned space higher in place - evaluate, the partition towards an unconditioned space without a rate of its own compared with a fresh copy evaluated on another thread; (b) generated buildings: every combination of 1..{} spaces x (kind 3 x inside 2 x multiplier{{1,2,.5}} x floors{{1,2}} x ceiling{{none, own roof, floor of the space above, own ceiling next to the space above}}) = 144^k models, every 5th of the multi-space ones also with the walls stored round-robin across spaces and the spaces reversed; (c) every 7th of those re-scaled by s in {{1/4,1/2,2,4}} (areas x s^2, volumes x s^3, compactness x s within the 0.01 rounding quantum); (d) {} f32 angles for Tilt/Orientation classification and the parser-vs-model tilt classes; shipped models; non-trivial = indicators computed", maxsp, swept),
        true,
        json!({"configs": n, "aggregate_models": total_b, "angles_swept": swept}),
    )
}
