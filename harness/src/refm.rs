//! Reference models shared by several checks (written from the property statements, f64, boring)

use bemodel::*;
use std::collections::HashSet;

/// Referential closure of a model: returns the list of broken links / duplicate ids (empty = closed)
pub fn closure_defects(m: &Model) -> Vec<String> {
    let mut d = vec![];
    fn uniq<'a>(name: &str, ids: impl Iterator<Item = Uuid>, d: &mut Vec<String>) -> HashSet<Uuid> {
        let mut s = HashSet::new();
        for i in ids {
            if !s.insert(i) {
                d.push(format!("duplicate id in {}: {}", name, i));
            }
        }
        s
    }
    let spaces = uniq("spaces", m.spaces.iter().map(|x| x.id), &mut d);
    let walls = uniq("walls", m.walls.iter().map(|x| x.id), &mut d);
    let _windows = uniq("windows", m.windows.iter().map(|x| x.id), &mut d);
    let _tbs = uniq("thermal_bridges", m.thermal_bridges.iter().map(|x| x.id), &mut d);
    let _shades = uniq("shades", m.shades.iter().map(|x| x.id), &mut d);
    let wallcons = uniq("wallcons", m.cons.wallcons.iter().map(|x| x.id), &mut d);
    let wincons = uniq("wincons", m.cons.wincons.iter().map(|x| x.id), &mut d);
    let materials = uniq("materials", m.cons.materials.iter().map(|x| x.id), &mut d);
    let glasses = uniq("glasses", m.cons.glasses.iter().map(|x| x.id), &mut d);
    let frames = uniq("frames", m.cons.frames.iter().map(|x| x.id), &mut d);
    let loads = uniq("loads", m.loads.iter().map(|x| x.id), &mut d);
    let thermostats = uniq("thermostats", m.thermostats.iter().map(|x| x.id), &mut d);
    let years = uniq("schedules.year", m.schedules.year.iter().map(|x| x.id), &mut d);
    let weeks = uniq("schedules.week", m.schedules.week.iter().map(|x| x.id), &mut d);
    let days = uniq("schedules.day", m.schedules.day.iter().map(|x| x.id), &mut d);
    let nil = Uuid::nil();
    let mut chk = |kind: &str, from: &str, id: Uuid, set: &HashSet<Uuid>| {
        if id == nil {
            d.push(format!("{}: nil id ({})", kind, from));
        } else if !set.contains(&id) {
            d.push(format!("{}: dangling ({})", kind, from));
        }
    };
    for w in &m.walls {
        chk("wall->space", &w.name, w.space, &spaces);
        chk("wall->cons", &w.name, w.cons, &wallcons);
        if let Some(n) = w.next_to {
            chk("wall->next_to", &w.name, n, &spaces);
        }
    }
    for w in &m.windows {
        chk("window->wall", &w.name, w.wall, &walls);
        chk("window->cons", &w.name, w.cons, &wincons);
    }
    for c in &m.cons.wallcons {
        for l in &c.layers {
            chk("layer->material", &c.name, l.material, &materials);
        }
    }
    for c in &m.cons.wincons {
        chk("wincons->glass", &c.name, c.glass, &glasses);
        chk("wincons->frame", &c.name, c.frame, &frames);
    }
    for s in &m.spaces {
        if let Some(l) = s.loads {
            chk("space->loads", &s.name, l, &loads);
        }
        if let Some(l) = s.thermostat {
            chk("space->thermostat", &s.name, l, &thermostats);
        }
    }
    for l in &m.loads {
        for s in [l.people_schedule, l.equipment_schedule, l.lighting_schedule].into_iter().flatten() {
            chk("loads->year", &l.name, s, &years);
        }
    }
    for l in &m.thermostats {
        for s in [l.temp_max, l.temp_min].into_iter().flatten() {
            chk("thermostat->year", &l.name, s, &years);
        }
    }
    for y in &m.schedules.year {
        for (w, _) in &y.values {
            chk("year->week", &y.name, *w, &weeks);
        }
    }
    for y in &m.schedules.week {
        for (w, _) in &y.values {
            chk("week->day", &y.name, *w, &days);
        }
    }
    d
}

/// "positive sizes and non-negative physical data" (strict on purpose: only clearly sane models qualify)
pub fn sane_sizes(m: &Model) -> bool {
    let pos = |x: f32| x.is_finite() && x > 1e-3 && x < 1e6;
    let nonneg = |x: f32| x.is_finite() && x >= 0.0 && x < 1e6;
    let opt_nonneg = |x: Option<f32>| x.map_or(true, nonneg);
    let poly_ok = |p: &Polygon| p.len() >= 3 && p.iter().all(|q| q.x.is_finite() && q.y.is_finite() && q.x.abs() < 1e5 && q.y.abs() < 1e5) && HasSurface::area(p) > 1e-2 && HasSurface::area(p) > 0.02 * HasSurface::perimeter(p); // not a sliver: mean width above 4 cm
    let geom_ok = |g: &WallGeom| g.tilt.is_finite() && g.azimuth.is_finite() && g.tilt.abs() <= 720.0 && g.azimuth.abs() <= 720.0 && poly_ok(&g.polygon) && g.position.map_or(true, |p| p.iter().all(|c| c.is_finite() && c.abs() < 1e5));
    m.meta.num_dwellings >= 0
        && opt_nonneg(m.meta.global_ventilation_l_s)
        && opt_nonneg(m.meta.n50_test_ach)
        && nonneg(m.meta.d_perim_insulation)
        && nonneg(m.meta.rn_perim_insulation)
        && m.spaces.iter().all(|s| pos(s.height) && pos(s.multiplier) && s.z.is_finite() && s.z.abs() < 1e4 && s.n_v.map_or(true, pos) && s.illuminance.map_or(true, pos))
        && m.walls.iter().all(|w| geom_ok(&w.geometry))
        && m.shades.iter().all(|w| geom_ok(&w.geometry))
        && m.windows.iter().all(|w| pos(w.geometry.width) && pos(w.geometry.height) && nonneg(w.geometry.setback) && w.geometry.position.map_or(true, |p| p.x.is_finite() && p.y.is_finite() && p.x.abs() < 1e5 && p.y.abs() < 1e5))
        && m.thermal_bridges.iter().all(|t| nonneg(t.l) && t.psi.is_finite() && t.psi.abs() < 1e3)
        && m.cons.wallcons.iter().all(|c| nonneg(c.absorptance) && !c.layers.is_empty() && c.layers.iter().all(|l| pos(l.e)))
        && m.cons.materials.iter().all(|x| match x.properties {
            MatProps::Detailed { conductivity, density, specific_heat, vapour_diff } => pos(conductivity) && pos(density) && pos(specific_heat) && opt_nonneg(vapour_diff),
            MatProps::Resistance { resistance, vapour_diff } => pos(resistance) && opt_nonneg(vapour_diff),
        })
        && m.cons.glasses.iter().all(|g| pos(g.u_value) && nonneg(g.g_gln) && g.g_gln <= 1.0)
        && m.cons.frames.iter().all(|g| pos(g.u_value) && nonneg(g.absorptivity))
        && m.cons.wincons.iter().all(|c| nonneg(c.f_f) && c.f_f <= 1.0 && nonneg(c.delta_u) && opt_nonneg(c.g_glshwi) && nonneg(c.c_100))
        && m.loads.iter().all(|l| nonneg(l.area_per_person) && nonneg(l.people_sensible) && nonneg(l.people_latent) && nonneg(l.equipment) && nonneg(l.lighting))
        && m.schedules.day.iter().all(|d| d.values.len() == 24 && d.values.iter().all(|v| v.is_finite() && v.abs() < 1e6))
        && m.schedules.week.iter().all(|w| w.values.iter().map(|v| v.1 as u64).sum::<u64>() == 7)
        && m.schedules.year.iter().all(|w| w.values.iter().map(|v| v.1 as u64).sum::<u64>() == 365)
        && m.overrides.walls.values().all(|o| opt_nonneg(o.u_value))
        && m.overrides.windows.values().all(|o| opt_nonneg(o.u_value) && opt_nonneg(o.f_shobst))
        // windows fit in a wall that is larger than them (net area positive)
        && m.walls.iter().all(|w| {
            let wa: f32 = m.windows.iter().filter(|v| v.wall == w.id).map(|v| v.geometry.width * v.geometry.height).sum();
            wa < HasSurface::area(&w.geometry.polygon)
        })
}

/// every number in a JSON value is finite (serde writes NaN/inf as null: so look for nulls where numbers are expected)
pub fn non_finite_paths(ind: &energy::EnergyIndicators) -> Vec<String> {
    let mut out = vec![];
    let g = &ind.props.global;
    let mut c = |name: &str, v: f32| {
        if !v.is_finite() {
            out.push(format!("{}={}", name, v));
        }
    };
    c("area_ref", ind.area_ref);
    c("compactness", ind.compactness);
    c("vol_env_net", ind.vol_env_net);
    c("vol_env_gross", ind.vol_env_gross);
    c("props.global.a_ref", g.a_ref);
    c("props.global.vol_env_inh_net", g.vol_env_inh_net);
    c("props.global.global_ventilation_rate", g.global_ventilation_rate);
    c("props.global.occ_spaces_average_load", g.occ_spaces_average_load);
    c("props.global.c_o_100", g.c_o_100);
    let k = &ind.K_data;
    c("K", k.K);
    for (n, v) in [("a", k.summary.a), ("au", k.summary.au), ("opaques_a", k.summary.opaques_a), ("opaques_au", k.summary.opaques_au), ("windows_a", k.summary.windows_a), ("windows_au", k.summary.windows_au), ("tbs_l", k.summary.tbs_l), ("tbs_psil", k.summary.tbs_psil)] {
        c(&format!("K.summary.{}", n), v);
    }
    for (n, e) in [("walls", &k.walls), ("roofs", &k.roofs), ("floors", &k.floors), ("ground", &k.ground), ("windows", &k.windows)] {
        c(&format!("K.{}.a", n), e.a);
        c(&format!("K.{}.au", n), e.au);
        for (nn, v) in [("u_max", e.u_max), ("u_min", e.u_min), ("u_mean", e.u_mean)] {
            if let Some(v) = v {
                c(&format!("K.{}.{}", n, nn), v);
            }
        }
    }
    let q = &ind.q_soljul_data;
    for (n, v) in [("q_soljul", q.q_soljul), ("Q_soljul", q.Q_soljul), ("a_wp", q.a_wp), ("irradiance_mean", q.irradiance_mean), ("fshobst_mean", q.fshobst_mean), ("gglshwi_mean", q.gglshwi_mean), ("f_f_mean", q.f_f_mean)] {
        c(&format!("q_soljul_data.{}", n), v);
    }
    for (o, dd) in &q.detail {
        for (n, v) in [("gains", dd.gains), ("a", dd.a), ("irradiance", dd.irradiance), ("f_f_mean", dd.f_f_mean), ("gglshwi_mean", dd.gglshwi_mean), ("fshobst_mean", dd.fshobst_mean)] {
            c(&format!("q_soljul_data.detail[{}].{}", o, n), v);
        }
    }
    let n5 = &ind.n50_data;
    for (n, v) in [("n50", n5.n50), ("n50_ref", n5.n50_ref), ("walls_a", n5.walls_a), ("walls_c_ref", n5.walls_c_ref), ("walls_c_a_ref", n5.walls_c_a_ref), ("walls_c", n5.walls_c), ("walls_c_a", n5.walls_c_a), ("windows_a", n5.windows_a), ("windows_c", n5.windows_c), ("windows_c_a", n5.windows_c_a), ("vol", n5.vol)] {
        c(&format!("n50_data.{}", n), v);
    }
    for (id, s) in &ind.props.spaces {
        for (n, v) in [("area", s.area), ("height_net", s.height_net), ("volume_net", s.volume_net)] {
            c(&format!("props.spaces[{}].{}", id, n), v);
        }
        if let Some(v) = s.veei {
            c(&format!("props.spaces[{}].veei", id), v);
        }
    }
    for (id, w) in &ind.props.walls {
        c(&format!("props.walls[{}].area_net", id), w.area_net);
        if let Some(u) = w.u_value {
            c(&format!("props.walls[..].u_value"), u);
            let _ = id;
        }
    }
    for (_id, w) in &ind.props.windows {
        if let Some(u) = w.u_value {
            c("props.windows[..].u_value", u);
        }
        if let Some(u) = w.f_shobst {
            c("props.windows[..].f_shobst", u);
        }
    }
    for (_id, w) in &ind.props.wallcons {
        if let Some(u) = w.resistance {
            c("props.wallcons[..].resistance", u);
        }
    }
    for (_id, w) in &ind.props.sch_day {
        c("props.sch_day[..].average", w.average);
    }
    for (_id, w) in &ind.props.loads {
        c("props.loads[..].loads_avg", w.loads_avg);
    }
    out
}
