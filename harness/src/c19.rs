//! C19 — damaged project files are rejected with an error, never with a crash or hang (E2 fault enumeration)

use crate::bdl;
use crate::common::*;
use crate::corpus;
use crate::sup;
use serde_json::{json, Value};
use std::collections::BTreeMap;
use std::sync::Mutex;

#[derive(Clone, Copy, PartialEq, Eq, Debug)]
enum Fmt {
    Ctehexml,
    Cte,
    Kyg,
    Tbl,
}

struct FileCases {
    path: String,
    fmt: Fmt,
    lines: Vec<String>,
    crlf: bool,
    /// (start,end) line ranges of blocks
    blocks: Vec<(usize, usize)>,
    /// (line, name) occurrences of references
    refs: Vec<(usize, String)>,
    /// (line, token index in line)
    nums: Vec<(usize, usize)>,
    /// line range of the BDL text inside a .ctehexml (whole file for .cte)
    bdl_range: (usize, usize),
    /// grey-box value substitutions in the XML part: (line, byte start, byte end, replacement literal)
    lits: Vec<(usize, usize, usize, String)>,
    /// further single edits: (line, kind, byte start, byte end); kind 0 = the file ends in the middle of the line (at
    /// byte start), 1 = the text of an XML element emptied, 2 = an XML attribute removed, 3 / 4 / 5 = the line loses everything
    /// behind its middle / first quarter / third quarter (the file goes on)
    extras: Vec<(usize, u8, usize, usize)>,
}

const EXTRA_KINDS: [&str; 7] = ["truncate-midline", "xml-empty-text", "xml-remove-attribute", "cut-line-midway", "cut-line-at-a-quarter", "cut-line-at-three-quarters", "reference->name-of-its-own-block"];

const NUM_REPL: [&str; 6] = ["abc", "1e39", "-1", "99999999", "0", "NaN"];

fn is_delim(c: char) -> bool {
    c.is_whitespace() || matches!(c, '=' | ',' | '(' | ')' | ';' | '<' | '>' | '"')
}

/// byte ranges of numeric tokens of a line (outside quotes for BDL lines)
fn num_tokens(line: &str) -> Vec<(usize, usize)> {
    let mut out = vec![];
    let mut start: Option<usize> = None;
    let mut inq = false;
    let bytes: Vec<(usize, char)> = line.char_indices().collect();
    let mut push = |a: usize, b: usize, out: &mut Vec<(usize, usize)>| {
        let t = &line[a..b];
        if t.chars().any(|c| c.is_ascii_digit()) && t.replace(',', ".").parse::<f64>().is_ok() && t.len() < 20 {
            out.push((a, b));
        }
    };
    for (k, (i, c)) in bytes.iter().enumerate() {
        if *c == '"' {
            inq = !inq;
        }
        let d = is_delim(*c);
        if !d && start.is_none() && !inq {
            start = Some(*i);
        }
        if d {
            if let Some(a) = start.take() {
                push(a, *i, &mut out);
            }
        }
        if k + 1 == bytes.len() {
            if let Some(a) = start.take() {
                push(a, line.len(), &mut out);
            }
        }
    }
    out
}

/// string literals of the XML-side parsers (hulc/src/ctehexml/**/*.rs), read from the current working tree:
/// the alphabet of "kind"-like values the code branches on
fn source_literals() -> &'static Vec<(String, Vec<String>)> {
    static L: std::sync::OnceLock<Vec<(String, Vec<String>)>> = std::sync::OnceLock::new();
    L.get_or_init(|| {
        let mut out = vec![];
        let root = format!("{}/hulc/src/ctehexml", repo_dir());
        let mut stack = vec![root];
        while let Some(d) = stack.pop() {
            let Ok(rd) = std::fs::read_dir(&d) else { continue };
            for e in rd.filter_map(|e| e.ok()) {
                let p = e.path();
                if p.is_dir() {
                    stack.push(p.to_string_lossy().to_string());
                } else if p.extension().map_or(false, |x| x == "rs") {
                    let txt = std::fs::read_to_string(&p).unwrap_or_default();
                    let mut lits: Vec<String> = vec![];
                    for line in txt.lines() {
                        let t = line.trim_start();
                        if t.starts_with("//") {
                            continue;
                        }
                        let mut parts = line.split('"');
                        parts.next();
                        while let Some(lit) = parts.next() {
                            if lit.len() >= 2 && lit.len() <= 40 && !lit.contains('{') && !lit.contains('\\') && !lits.iter().any(|x| x == lit) {
                                lits.push(lit.to_string());
                            }
                            parts.next();
                        }
                    }
                    out.push((p.to_string_lossy().to_string(), lits));
                }
            }
        }
        out.sort();
        out
    })
}

impl FileCases {
    fn load(path: &str, fmt: Fmt) -> FileCases {
        let text = match fmt {
            Fmt::Ctehexml => corpus::read_utf8(path),
            _ => corpus::read_latin1(path),
        };
        let crlf = text.contains("\r\n");
        let lines: Vec<String> = text.replace("\r\n", "\n").split('\n').map(|s| s.to_string()).collect();
        let (mut blocks, mut refs) = (vec![], vec![]);
        let mut bdl_range = (0, lines.len());
        if fmt == Fmt::Ctehexml || fmt == Fmt::Cte {
            let (a, b) = if fmt == Fmt::Ctehexml {
                let a = lines.iter().position(|l| l.contains("<EntradaGraficaLIDER>")).unwrap_or(0);
                let b = lines.iter().position(|l| l.contains("</EntradaGraficaLIDER>")).unwrap_or(lines.len() - 1);
                (a + 1, b)
            } else {
                (0, lines.len())
            };
            bdl_range = (a, b);
            let sub = lines[a..b].join("\n");
            let lx = bdl::lex(&sub);
            for bl in &lx.blocks {
                blocks.push((a + bl.start, a + bl.end));
                // references: attribute lines with a reference key
                for li in bl.start..=bl.end {
                    let l = lines[a + li].trim();
                    if let Some((k, v)) = l.split_once('=') {
                        if bdl::REF_KEYS.contains(&k.trim()) {
                            for nme in bdl::names_in(v) {
                                refs.push((a + li, nme));
                            }
                        }
                    } else if l.starts_with('"') {
                        // continuation line of a list of names
                        let key_is_ref = bl.attrs.iter().any(|(k, v)| bdl::REF_KEYS.contains(&k.as_str()) && v.contains(l.trim_end_matches(',').trim_end_matches(')')));
                        if key_is_ref {
                            for nme in bdl::names_in(l) {
                                refs.push((a + li, nme));
                            }
                        }
                    }
                }
            }
        }
        let mut nums = vec![];
        for (i, l) in lines.iter().enumerate() {
            for (t, _) in num_tokens(l).iter().enumerate() {
                nums.push((i, t));
            }
        }
        let mut lits = vec![];
        if fmt == Fmt::Ctehexml {
            let srcs = source_literals();
            let mut seen: std::collections::HashSet<(String, String, String)> = Default::default();
            for (li, l) in lines.iter().enumerate() {
                if li >= bdl_range.0 && li < bdl_range.1 {
                    continue;
                }
                // text of an XML element on this line: <tag>text</tag>
                let Some(a) = l.find('>') else { continue };
                let Some(b) = l.rfind("</") else { continue };
                if b <= a + 1 {
                    continue;
                }
                let tag = l[..a].trim().trim_start_matches('<').to_string();
                let text = &l[a + 1..b];
                let mut pos = a + 1;
                for tok in text.split(';') {
                    let (ts, te) = (pos, pos + tok.len());
                    pos = te + 1;
                    let t = tok.trim().trim_matches('"');
                    if t.len() < 2 {
                        continue;
                    }
                    for (_, ls) in srcs.iter().filter(|(_, ls)| ls.iter().any(|x| x == t)) {
                        for r in ls {
                            if r != t && seen.insert((tag.clone(), t.to_string(), r.clone())) {
                                lits.push((li, ts, te, r.clone()));
                            }
                        }
                    }
                }
            }
        }
        let mut extras = vec![];
        // a reference (or the PREVIOUS storey of a FLOOR) renamed to the name of the block that holds it
        for (ba, bb) in &blocks {
            for li in (*ba + 1)..=*bb {
                let l = &lines[li];
                if let Some((k, v)) = l.split_once('=') {
                    let k = k.trim();
                    if (bdl::REF_KEYS.contains(&k) || k == "PREVIOUS") && v.matches('"').count() == 2 {
                        if let (Some(q1), Some(q2)) = (l.find('"'), l.rfind('"')) {
                            if q2 > q1 + 1 && q1 > l.find('=').unwrap_or(0) {
                                extras.push((li, 6u8, q1 + 1, q2));
                            }
                        }
                    }
                }
            }
        }
        for (li, l) in lines.iter().enumerate() {
            if l.len() >= 2 {
                let mut cut = l.len() / 2;
                while !l.is_char_boundary(cut) {
                    cut += 1;
                }
                extras.push((li, 0u8, cut, cut));
                extras.push((li, 3u8, cut, l.len()));
                for (kind, num) in [(4u8, 1usize), (5u8, 3usize)] {
                    let mut c = l.len() * num / 4;
                    while !l.is_char_boundary(c) {
                        c += 1;
                    }
                    if c > 0 && c < l.len() && c != cut {
                        extras.push((li, kind, c, l.len()));
                    }
                }
            }
            if fmt == Fmt::Ctehexml && !(li >= bdl_range.0 && li < bdl_range.1) {
                if let (Some(a), Some(b)) = (l.find('>'), l.rfind("</")) {
                    if b > a + 1 {
                        extras.push((li, 1, a + 1, b));
                    }
                }
                // attributes: ' name="value"'
                let bytes = l.as_bytes();
                let mut i = 0;
                while let Some(eq) = l[i..].find("=\"").map(|p| p + i) {
                    let start = l[..eq].rfind(' ').unwrap_or(eq);
                    if let Some(close) = l[eq + 2..].find('"').map(|p| p + eq + 2) {
                        if bytes.get(start) == Some(&b' ') && l[..start].contains('<') {
                            extras.push((li, 2, start, close + 1));
                        }
                        i = close + 1;
                    } else {
                        break;
                    }
                }
            }
        }
        FileCases { path: path.to_string(), fmt, lines, crlf, blocks, refs, nums, bdl_range, lits, extras }
    }

    fn n_cases(&self) -> u64 {
        (3 * self.lines.len() + self.blocks.len() + self.refs.len() + NUM_REPL.len() * self.nums.len() + self.lits.len() + self.extras.len()) as u64
    }

    fn describe(&self, k: u64) -> (String, Value) {
        let n = self.lines.len() as u64;
        let f = self.path.rsplit('/').take(2).collect::<Vec<_>>().into_iter().rev().collect::<Vec<_>>().join("/");
        if k < n {
            ("delete-line".into(), json!({"file": f, "edit": "delete line", "line": k + 1, "text": self.lines[k as usize].chars().take(120).collect::<String>()}))
        } else if k < 2 * n {
            ("duplicate-line".into(), json!({"file": f, "edit": "duplicate line", "line": k - n + 1, "text": self.lines[(k - n) as usize].chars().take(120).collect::<String>()}))
        } else if k < 3 * n {
            ("truncate".into(), json!({"file": f, "edit": "truncate after line", "line": k - 2 * n + 1}))
        } else {
            let mut r = (k - 3 * n) as usize;
            if r < self.blocks.len() {
                let (a, b) = self.blocks[r];
                return ("remove-block".into(), json!({"file": f, "edit": "remove block", "lines": [a + 1, b + 1], "header": self.lines[a].trim()}));
            }
            r -= self.blocks.len();
            if r < self.refs.len() {
                let (l, nme) = &self.refs[r];
                return ("rename-reference".into(), json!({"file": f, "edit": "rename reference", "line": l + 1, "name": nme}));
            }
            r -= self.refs.len();
            if r >= NUM_REPL.len() * self.nums.len() + self.lits.len() {
                let (l, kind, a, b) = self.extras[r - NUM_REPL.len() * self.nums.len() - self.lits.len()];
                return (EXTRA_KINDS[kind as usize].into(), json!({"file": f, "edit": EXTRA_KINDS[kind as usize], "line": l + 1, "bytes": [a, b], "text": self.lines[l].chars().take(160).collect::<String>()}));
            }
            if r >= NUM_REPL.len() * self.nums.len() {
                let (l, a, b, rep) = &self.lits[r - NUM_REPL.len() * self.nums.len()];
                return ("xml-value->source-literal".into(), json!({"file": f, "edit": "replace XML value by a literal the parser branches on", "line": l + 1, "old": &self.lines[*l][*a..*b], "new": rep}));
            }
            let (l, t) = self.nums[r / NUM_REPL.len()];
            let rep = NUM_REPL[r % NUM_REPL.len()];
            (format!("number->{}", rep), json!({"file": f, "edit": "replace number", "line": l + 1, "token": t, "by": rep, "text": self.lines[l].chars().take(120).collect::<String>()}))
        }
    }

    fn damaged(&self, k: u64) -> String {
        let n = self.lines.len() as u64;
        let mut ls: Vec<String>;
        if k < n {
            ls = self.lines.clone();
            ls.remove(k as usize);
        } else if k < 2 * n {
            ls = self.lines.clone();
            let i = (k - n) as usize;
            ls.insert(i, self.lines[i].clone());
        } else if k < 3 * n {
            ls = self.lines[..=(k - 2 * n) as usize].to_vec();
        } else {
            let mut r = (k - 3 * n) as usize;
            ls = self.lines.clone();
            if r < self.blocks.len() {
                let (a, b) = self.blocks[r];
                ls.drain(a..=b);
            } else {
                r -= self.blocks.len();
                if r < self.refs.len() {
                    let (l, nme) = &self.refs[r];
                    ls[*l] = ls[*l].replacen(nme.as_str(), &format!("{}_XX", nme), 1);
                } else {
                    r -= self.refs.len();
                    if r >= NUM_REPL.len() * self.nums.len() + self.lits.len() {
                        let (l, kind, a, b) = self.extras[r - NUM_REPL.len() * self.nums.len() - self.lits.len()];
                        if kind == 0 {
                            ls.truncate(l + 1);
                            ls[l] = self.lines[l][..a].to_string();
                        } else if kind == 6 {
                            let own = self.blocks.iter().find(|(x, y)| *x < l && l <= *y).map(|(x, _)| self.lines[*x].split('"').nth(1).unwrap_or("").to_string()).unwrap_or_default();
                            ls[l] = format!("{}{}{}", &self.lines[l][..a], own, &self.lines[l][b..]);
                        } else {
                            ls[l] = format!("{}{}", &self.lines[l][..a], &self.lines[l][b..]);
                        }
                        return ls.join(if self.crlf { "\r\n" } else { "\n" });
                    }
                    if r >= NUM_REPL.len() * self.nums.len() {
                        let (l, a, b, rep) = &self.lits[r - NUM_REPL.len() * self.nums.len()];
                        ls[*l] = format!("{}{}{}", &self.lines[*l][..*a], rep, &self.lines[*l][*b..]);
                        return ls.join(if self.crlf { "\r\n" } else { "\n" });
                    }
                    let (l, t) = self.nums[r / NUM_REPL.len()];
                    let rep = NUM_REPL[r % NUM_REPL.len()];
                    let toks = num_tokens(&self.lines[l]);
                    let (a, b) = toks[t];
                    ls[l] = format!("{}{}{}", &self.lines[l][..a], rep, &self.lines[l][b..]);
                }
            }
        }
        ls.join(if self.crlf { "\r\n" } else { "\n" })
    }
}

fn all_files() -> Vec<(String, Fmt)> {
    let mut v = vec![];
    for d in corpus::project_dirs() {
        if let Some(p) = corpus::ctehexml_path(&d) {
            v.push((p, Fmt::Ctehexml));
        }
    }
    for p in corpus::cte_files() {
        v.push((p, Fmt::Cte));
    }
    for d in corpus::project_dirs() {
        let k = format!("{}/KyGananciasSolares.txt", d);
        if std::path::Path::new(&k).exists() {
            v.push((k, Fmt::Kyg));
        }
        let t = format!("{}/NewBDL_O.tbl", d);
        if std::path::Path::new(&t).exists() {
            v.push((t, Fmt::Tbl));
        }
    }
    v
}

struct State {
    files: Vec<FileCases>,
    offsets: Vec<u64>,
}

fn build_state() -> State {
    let files: Vec<FileCases> = all_files().iter().map(|(p, f)| FileCases::load(p, *f)).collect();
    let mut offsets = vec![0u64];
    for f in &files {
        offsets.push(offsets.last().unwrap() + f.n_cases());
    }
    State { files, offsets }
}

fn run_subject(fmt: Fmt, text: &str) -> Value {
    let r = catch(std::panic::AssertUnwindSafe(|| -> Result<(), String> {
        match fmt {
            Fmt::Ctehexml => {
                let d = corpus::parse_ctehexml_text(text).map_err(|e| format!("{}", e))?;
                corpus::convert(&d).map_err(|e| format!("{}", e))?;
            }
            Fmt::Cte => {
                let d = corpus::parse_cte_text(text).map_err(|e| format!("{}", e))?;
                corpus::convert(&d).map_err(|e| format!("{}", e))?;
            }
            Fmt::Kyg => {
                hulc::kyg::parse(text).map_err(|e| format!("{}", e))?;
            }
            Fmt::Tbl => {
                let path = format!("{}/.cache/c19-{}.tbl", verif_dir(), std::process::id());
                std::fs::write(&path, text.chars().map(|c| c as u32 as u8).collect::<Vec<u8>>()).map_err(|e| e.to_string())?;
                let r = hulc::tbl::parse(&path);
                let _ = std::fs::remove_file(&path);
                r.map_err(|e| format!("{}", e))?;
            }
        }
        Ok(())
    }));
    match r {
        Ok(Ok(())) => json!({"verdict": "ok"}),
        Ok(Err(e)) => json!({"verdict": "err", "msg": e.lines().next().unwrap_or("").chars().take(100).collect::<String>()}),
        Err(p) => json!({"verdict": "panic", "panic": p}),
    }
}

thread_local! { static STATE: std::cell::RefCell<Option<State>> = std::cell::RefCell::new(None); }

pub fn worker(_space: &str, idx: u64) -> Value {
    STATE.with(|st| {
        let mut st = st.borrow_mut();
        if st.is_none() {
            *st = Some(build_state());
            let _ = corpus::catalog();
        }
        let st = st.as_ref().unwrap();
        let fi = st.offsets.partition_point(|o| *o <= idx) - 1;
        let f = &st.files[fi];
        let text = f.damaged(idx - st.offsets[fi]);
        run_subject(f.fmt, &text)
    })
}

pub fn run(ctx: &Ctx) -> i32 {
    let st = build_state();
    let total = *st.offsets.last().unwrap();
    // undamaged corpus first: equivalence of the cached-catalog path with parse_with_catalog, and the baseline verdicts
    let mut baseline: BTreeMap<String, String> = BTreeMap::new();
    for f in &st.files {
        let text = f.lines.join(if f.crlf { "\r\n" } else { "\n" });
        let v = run_subject(f.fmt, &text);
        let verdict = v["verdict"].as_str().unwrap_or("?").to_string();
        ctx.eval(1);
        if verdict == "panic" {
            ctx.violation(&format!("panic:{}", panic_key(v["panic"].as_str().unwrap_or(""))), &format!("the intact shipped file {} makes the converter panic: {}", f.path, v["panic"]), json!({"file": f.path, "edit": "none"}));
        }
        baseline.insert(f.path.clone(), verdict);
        if f.fmt == Fmt::Ctehexml {
            let a = catch(std::panic::AssertUnwindSafe(|| hulc::ctehexml::parse_with_catalog(&text).ok().and_then(|d| corpus::convert(&d).ok()).map(|m| m.as_json().unwrap())));
            let b = catch(std::panic::AssertUnwindSafe(|| corpus::parse_ctehexml_text(&text).ok().and_then(|d| corpus::convert(&d).ok()).map(|m| m.as_json().unwrap())));
            if a.ok() != b.ok() {
                ctx.machinery_error(format!("cached-catalog path differs from parse_with_catalog on {}", f.path));
            }
        }
    }
    // which indices to run
    let smallest = |fmt: Fmt| -> usize { st.files.iter().enumerate().filter(|(_, f)| f.fmt == fmt).min_by_key(|(_, f)| f.lines.len()).map(|(i, _)| i).unwrap() };
    let core_files: Vec<usize> = vec![smallest(Fmt::Ctehexml), smallest(Fmt::Cte), smallest(Fmt::Kyg), smallest(Fmt::Tbl)];
    let stride = 1499u64;
    let mut idxs: Vec<u64> = vec![];
    // VERIF_C19_PART=xml: only the XML part (outside the BDL text) of the .ctehexml files, all edits (systems sections)
    let part = std::env::var("VERIF_C19_PART").unwrap_or_default();
    if part == "xml" {
        for (fi, f) in st.files.iter().enumerate() {
            if f.fmt != Fmt::Ctehexml {
                continue;
            }
            let n = f.lines.len() as u64;
            let outside = |l: usize| l < f.bdl_range.0 || l >= f.bdl_range.1;
            for l in 0..f.lines.len() {
                if outside(l) {
                    for k in 0..3u64 {
                        idxs.push(st.offsets[fi] + k * n + l as u64);
                    }
                }
            }
            let base = st.offsets[fi] + 3 * n + f.blocks.len() as u64 + f.refs.len() as u64;
            for (t, (l, _)) in f.nums.iter().enumerate() {
                if outside(*l) {
                    for r in 0..NUM_REPL.len() as u64 {
                        idxs.push(base + t as u64 * NUM_REPL.len() as u64 + r);
                    }
                }
            }
        }
    }
    if part == "lits" {
        for (fi, f) in st.files.iter().enumerate() {
            let n = f.lines.len() as u64;
            let base = st.offsets[fi] + 3 * n + f.blocks.len() as u64 + f.refs.len() as u64 + (NUM_REPL.len() * f.nums.len()) as u64;
            for k in 0..f.lits.len() as u64 {
                idxs.push(base + k);
            }
        }
    }
    if part == "extras" || part == "extras-all" {
        for (fi, f) in st.files.iter().enumerate() {
            let n = f.lines.len() as u64;
            let base = st.offsets[fi] + 3 * n + f.blocks.len() as u64 + f.refs.len() as u64 + (NUM_REPL.len() * f.nums.len()) as u64 + f.lits.len() as u64;
            for (k, e) in f.extras.iter().enumerate() {
                // the XML-side kinds everywhere, mid-line truncation only outside the BDL text (inside it, it is a deleted tail)
                if part == "extras-all" || e.1 != 0 || (f.fmt == Fmt::Ctehexml && !(e.0 >= f.bdl_range.0 && e.0 < f.bdl_range.1)) {
                    idxs.push(base + k as u64);
                }
            }
        }
    }
    match ctx.tier {
        _ if part == "xml" || part == "lits" || part.starts_with("extras") => {}
        Tier::Thorough => idxs = (0..total).collect(),
        Tier::Quick => {
            for (fi, _f) in st.files.iter().enumerate() {
                let (a, b) = (st.offsets[fi], st.offsets[fi + 1]);
                if core_files.contains(&fi) {
                    idxs.extend(a..b);
                } else {
                    let mut i = a + (ctx.seed % stride);
                    while i < b {
                        idxs.push(i);
                        i += stride;
                    }
                }
            }
            // damage next to text that is not ASCII (error messages quote what they could not read): for every block of
            // every project file whose header or first accented line holds a non-ASCII letter, the header line and that
            // line are deleted, and the file is cut in the middle of each of them - on every 3rd such block
            let mut near = 0u64;
            for (fi, f) in st.files.iter().enumerate() {
                if core_files.contains(&fi) || !matches!(f.fmt, Fmt::Ctehexml | Fmt::Cte) {
                    continue;
                }
                let n = f.lines.len() as u64;
                let extras_base = st.offsets[fi] + 3 * n + f.blocks.len() as u64 + f.refs.len() as u64 + (NUM_REPL.len() * f.nums.len()) as u64 + f.lits.len() as u64;
                let mid: BTreeMap<usize, u64> = f.extras.iter().enumerate().filter(|(_, e)| e.1 == 0).map(|(k, e)| (e.0, k as u64)).collect();
                let half: BTreeMap<usize, u64> = f.extras.iter().enumerate().filter(|(_, e)| e.1 == 3).map(|(k, e)| (e.0, k as u64)).collect();
                for (bi, (a, b)) in f.blocks.iter().enumerate() {
                    let Some(l) = (*a..=*b).find(|l| !f.lines[*l].is_ascii()) else { continue };
                    near += 1;
                    if (near + ctx.seed) % 3 != 0 {
                        continue;
                    }
                    let _ = bi;
                    for line in [*a, l] {
                        idxs.push(st.offsets[fi] + line as u64); // delete line
                        if let Some(k) = mid.get(&line) {
                            idxs.push(extras_base + k); // file ends in the middle of the line
                        }
                        if let Some(k) = half.get(&line) {
                            idxs.push(extras_base + k); // the line loses its second half, the file goes on
                        }
                    }
                }
            }
            idxs.sort();
            idxs.dedup();
        }
    }
    let tally = Mutex::new((0u64, 0u64, 0u64, BTreeMap::<String, u64>::new())); // ok, err, panic, by edit kind
    sup::supervise("c19", &idxs, std::time::Duration::from_secs(15), &|idx, v| {
        let fi = st.offsets.partition_point(|o| *o <= idx) - 1;
        let f = &st.files[fi];
        let (kind, descr) = f.describe(idx - st.offsets[fi]);
        ctx.eval(1);
        let verdict = v["verdict"].as_str().unwrap_or("?");
        let mut t = tally.lock().unwrap();
        *t.3.entry(kind.clone()).or_default() += 1;
        match verdict {
            "ok" => t.0 += 1,
            "err" => {
                t.1 += 1;
                ctx.nontriv(1);
            }
            "panic" => {
                t.2 += 1;
                ctx.nontriv(1);
                drop(t);
                let p = v["panic"].as_str().unwrap_or("");
                ctx.violation(&format!("panic:{}", panic_key(p)), &format!("{} makes parsing/conversion panic: {}", kind, p), json!({"case": descr, "index": idx, "result": v}));
            }
            "timeout" | "oom-or-killed" | "abort" | "died" | "segv" => {
                drop(t);
                ctx.violation(&format!("{}:{:?}:{}", verdict, f.fmt, kind), &format!("{} on {} did not return ({})", kind, f.path, verdict), json!({"case": descr, "index": idx, "result": v}));
            }
            _ => {
                drop(t);
                ctx.machinery_error(format!("worker verdict {:?}", v));
            }
        }
        if v["stdout_bytes"].as_u64().unwrap_or(0) > 0 {
            // belongs to C01; recorded here as a note only
            ctx.note("stdout_written_during_library_call", json!(true));
        }
        true
    });
    let t = tally.lock().unwrap();
    ctx.outcome(&"ok");
    if t.1 > 0 {
        ctx.outcome(&"err");
    }
    if t.2 > 0 {
        ctx.outcome(&"panic");
    }
    ctx.note("tally", json!({"still_converted": t.0, "rejected_with_error": t.1, "panicked": t.2, "by_edit_kind": t.3, "files": st.files.len(), "total_single_edits_in_space": total, "run_now": idxs.len(), "core_files_fully_enumerated": core_files.iter().map(|i| st.files[*i].path.clone()).collect::<Vec<_>>(), "baseline_verdicts_of_intact_files": baseline.iter().filter(|(_, v)| *v != "ok").map(|(k, v)| format!("{}: {}", k.rsplit('/').next().unwrap(), v)).collect::<Vec<_>>()}));
    let (k0, d0) = st.files[core_files[0]].describe(1234);
    ctx.sample(json!({"kind": k0, "case": d0}));
    let (k1, d1) = st.files[core_files[1]].describe(st.files[core_files[1]].n_cases() - 5);
    ctx.sample(json!({"kind": k1, "case": d1}));
    ctx.finish(
        "fault_enumeration",
        &format!("every single-edit corruption {{delete line, duplicate line, truncate after line, truncate in the middle of the line, cut the line at its middle / first quarter / third quarter}} of every line, {{element text emptied, attribute removed}} for every element / attribute of the XML part, {{remove block}} for every BDL block, {{rename reference}} for every reference occurrence, every numeric token x {{abc, 1e39, -1, 99999999, 0, NaN}} of every shipped project file (12 .ctehexml, 56 .cte, 6 KyG, 7 .tbl: {} damaged files); thorough runs all of them, quick runs every edit of the smallest file of each format (deterministic core) plus the slice i = VERIF_SEED mod {} of the rest, plus - for every 3rd block that holds a non-ASCII letter - the deletion of its header line and of its first such line, the file cut in the middle of each, and each of them cut midway; each damaged text goes through ctehexml::parse + cached catalog + Model::try_from (resp. Data::new, kyg::parse, tbl::parse) in a supervised worker (15 s watchdog, 4 GiB, panic-site capture); non-trivial = the damage is noticed (error or panic)", total, stride),
        ctx.tier == Tier::Thorough,
        json!({"space_size": total}),
    )
}

/// C01 (thorough): stdout-silence monitor over every "remove one block" mutant of every shipped .ctehexml
pub fn monitor_sweep(ctx: &Ctx) -> u64 {
    let st = build_state();
    let mut idxs = vec![];
    for (fi, f) in st.files.iter().enumerate() {
        if f.fmt != Fmt::Ctehexml {
            continue;
        }
        let n = f.lines.len() as u64;
        let quick_file = f.path.ends_with("cubo.ctehexml") || f.path.ends_with("e4h_medianeras.ctehexml");
        if ctx.tier == Tier::Thorough {
            for b in 0..f.blocks.len() as u64 {
                idxs.push(st.offsets[fi] + 3 * n + b);
            }
        }
        if ctx.tier == Tier::Thorough || quick_file {
            let base = st.offsets[fi] + 3 * n + f.blocks.len() as u64 + f.refs.len() as u64 + (NUM_REPL.len() * f.nums.len()) as u64;
            for k in 0..f.lits.len() as u64 {
                idxs.push(base + k);
            }
        }
    }
    let count = std::sync::atomic::AtomicU64::new(0);
    sup::supervise("c19", &idxs, std::time::Duration::from_secs(15), &|idx, v| {
        count.fetch_add(1, std::sync::atomic::Ordering::Relaxed);
        ctx.eval(1);
        if v["stdout_bytes"].as_u64().unwrap_or(0) > 0 {
            let fi = st.offsets.partition_point(|o| *o <= idx) - 1;
            let (_, d) = st.files[fi].describe(idx - st.offsets[fi]);
            ctx.violation("library-writes-to-stdout:parse", &format!("parsing/conversion wrote {} bytes to standard output (starts {:?})", v["stdout_bytes"], v["stdout_excerpt"].as_str().unwrap_or("").chars().take(50).collect::<String>()), json!({"case": d}));
        }
        true
    });
    count.load(std::sync::atomic::Ordering::Relaxed)
}

// ================================================================== C02 (shares the edit machinery)

fn census(m: &bemodel::Model) -> Vec<u64> {
    let c = |b: bool| b as u64;
    vec![
        m.spaces.len() as u64,
        m.walls.len() as u64,
        m.windows.len() as u64,
        m.shades.len() as u64,
        m.thermal_bridges.len() as u64,
        m.spaces.iter().map(|s| c(s.loads.is_some())).sum(),
        m.spaces.iter().map(|s| c(s.thermostat.is_some())).sum(),
        m.walls.iter().map(|s| c(s.next_to.is_some())).sum(),
        m.cons.wallcons.len() as u64,
        m.cons.wallcons.iter().map(|w| w.layers.len() as u64).sum(),
        m.cons.wincons.len() as u64,
        m.loads.len() as u64,
        m.thermostats.len() as u64,
        m.loads.iter().map(|l| c(l.people_schedule.is_some()) + c(l.equipment_schedule.is_some()) + c(l.lighting_schedule.is_some())).sum(),
        m.thermostats.iter().map(|l| c(l.temp_max.is_some()) + c(l.temp_min.is_some())).sum(),
        m.schedules.year.len() as u64,
        m.schedules.year.iter().map(|y| y.values.len() as u64).sum(),
        m.schedules.week.len() as u64,
        m.schedules.week.iter().map(|y| y.values.len() as u64).sum(),
        m.schedules.day.len() as u64,
    ]
}

const CENSUS_NAMES: [&str; 20] = ["spaces", "walls", "windows", "shades", "bridges", "space->loads", "space->thermostat", "wall->next_to", "wallcons", "layers", "wincons", "loads", "thermostats", "loads->schedule", "thermostat->schedule", "year", "year periods", "week", "week runs", "day"];

const DEF_BLOCKS: [&str; 12] = ["POLYGON", "CONSTRUCTION", "LAYERS", "MATERIAL", "GLASS-TYPE", "NAME-FRAME", "GAP", "DAY-SCHEDULE-PD", "WEEK-SCHEDULE-PD", "SCHEDULE-PD", "SPACE-CONDITIONS", "SYSTEM-CONDITIONS"];

fn convert_outcome(fmt: Fmt, text: &str) -> Value {
    match corpus::convert_text(text, fmt == Fmt::Cte) {
        corpus::Outcome::Ok(m) => {
            let defects = crate::refm::closure_defects(&m);
            // checker warnings about links (the negative-length warning of a bridge is value damage, not a link)
            let linked: std::collections::HashSet<_> = m.walls.iter().map(|w| w.id).chain(m.windows.iter().map(|w| w.id)).collect();
            let checker = bemodel::check(&m).iter().filter(|w| w.id.map_or(true, |i| linked.contains(&i))).count();
            json!({"verdict": "ok", "census": census(&m), "defects": defects.iter().take(5).collect::<Vec<_>>(), "n_defects": defects.len(), "checker_warnings": checker})
        }
        corpus::Outcome::Err(e) => json!({"verdict": "err", "msg": e}),
        corpus::Outcome::Panic(p) => json!({"verdict": "panic", "panic": p}),
    }
}

/// indices (into the C19 case space) of the C02 edits: rename-reference and remove-definition-block of project files
fn c02_indices(st: &State, tier: Tier) -> Vec<u64> {
    let mut projects: Vec<usize> = st.files.iter().enumerate().filter(|(_, f)| matches!(f.fmt, Fmt::Ctehexml | Fmt::Cte)).map(|(i, _)| i).collect();
    if tier == Tier::Quick {
        projects.sort_by_key(|i| st.files[*i].lines.len());
        // the 3 smallest .ctehexml and the 3 smallest .cte
        let mut sel = vec![];
        for fmt in [Fmt::Ctehexml, Fmt::Cte] {
            sel.extend(projects.iter().filter(|i| st.files[**i].fmt == fmt).take(3).copied());
        }
        projects = sel;
    }
    let mut idxs = vec![];
    for fi in projects {
        let f = &st.files[fi];
        let n = f.lines.len() as u64;
        for (b, (a, _)) in f.blocks.iter().enumerate() {
            let hdr = f.lines[*a].trim();
            let ty = hdr.rsplit('=').next().unwrap_or("").trim();
            if DEF_BLOCKS.contains(&ty) {
                idxs.push(st.offsets[fi] + 3 * n + b as u64);
            }
        }
        for r in 0..f.refs.len() as u64 {
            idxs.push(st.offsets[fi] + 3 * n + f.blocks.len() as u64 + r);
        }
    }
    // "whenever conversion yields a model it is closed" also under value damage: every numeric token -> 0 and -> -1
    // (one input per shortcut: zero fractions, zero thickness, zero counts) on the smallest project of each format
    // (thorough: the three smallest)
    let mut byfmt: Vec<usize> = vec![];
    for fmt in [Fmt::Ctehexml, Fmt::Cte] {
        let mut v: Vec<usize> = st.files.iter().enumerate().filter(|(_, f)| f.fmt == fmt).map(|(i, _)| i).collect();
        v.sort_by_key(|i| st.files[*i].lines.len());
        byfmt.extend(v.into_iter().take(if tier == Tier::Quick { 1 } else { 3 }));
    }
    for fi in byfmt {
        let f = &st.files[fi];
        let n = f.lines.len() as u64;
        let base = st.offsets[fi] + 3 * n + f.blocks.len() as u64 + f.refs.len() as u64;
        for t in 0..f.nums.len() as u64 {
            idxs.push(base + t * NUM_REPL.len() as u64 + 4); // -> 0
            idxs.push(base + t * NUM_REPL.len() as u64 + 2); // -> -1
        }
    }
    idxs
}

pub fn worker_c02(space: &str, idx: u64) -> Value {
    STATE.with(|st| {
        let mut st = st.borrow_mut();
        if st.is_none() {
            *st = Some(build_state());
            let _ = corpus::catalog();
        }
        let st = st.as_ref().unwrap();
        if space.starts_with("c02fresh") || space.starts_with("c02hist") {
            // the same damaged project as the only conversion of a process / after the intact project in one process
            let fi = st.offsets.partition_point(|o| *o <= idx) - 1;
            let f = &st.files[fi];
            if space.starts_with("c02hist") {
                let _ = convert_outcome(f.fmt, &f.lines.join("\n"));
            }
            let mut v = convert_outcome(f.fmt, &f.damaged(idx - st.offsets[fi]));
            if space.starts_with("c02fresh") {
                v["exit_after"] = json!(true);
            }
            return v;
        }
        if idx >= 1 << 40 {
            // baseline of file (idx - 2^40)
            let f = &st.files[(idx - (1 << 40)) as usize];
            return convert_outcome(f.fmt, &f.lines.join("\n"));
        }
        let fi = st.offsets.partition_point(|o| *o <= idx) - 1;
        let f = &st.files[fi];
        convert_outcome(f.fmt, &f.damaged(idx - st.offsets[fi]))
    })
}

/// (type, byte range) of every block `"name" = TYPE ... ..` of a BDL text
fn text_blocks(text: &str) -> Vec<(String, usize, usize)> {
    let mut v = vec![];
    let mut pos = 0;
    let mut open: Option<(String, usize)> = None;
    for l in text.split_inclusive('\n') {
        let t = l.trim();
        if open.is_none() {
            if t.starts_with('"') {
                if let Some((_, ty)) = t.rsplit_once('=') {
                    let ty = ty.trim();
                    if !ty.is_empty() && ty.chars().all(|c| c.is_ascii_uppercase() || c == '-') {
                        open = Some((ty.to_string(), pos));
                    }
                }
            }
        } else if t == ".." {
            let (ty, start) = open.take().unwrap();
            v.push((ty, start, pos + l.len()));
        }
        pos += l.len();
    }
    v
}

pub fn run_c02(ctx: &Ctx) -> i32 {
    let t_c02 = std::time::Instant::now();
    let mut sect: Vec<(String, f64)> = vec![];
    let st = build_state();
    // (a) every convertible project: closed, checker silent
    let nfiles = st.files.iter().filter(|f| matches!(f.fmt, Fmt::Ctehexml | Fmt::Cte)).count();
    let base_idx: Vec<u64> = st.files.iter().enumerate().filter(|(_, f)| matches!(f.fmt, Fmt::Ctehexml | Fmt::Cte)).map(|(i, _)| (1u64 << 40) + i as u64).collect();
    let baselines: Mutex<BTreeMap<usize, Value>> = Mutex::new(BTreeMap::new());
    sup::supervise("c02", &base_idx, std::time::Duration::from_secs(60), &|idx, v| {
        baselines.lock().unwrap().insert((idx - (1 << 40)) as usize, v);
        true
    });
    let baselines = baselines.into_inner().unwrap();
    let mut converted = 0;
    for (fi, v) in &baselines {
        ctx.eval(1);
        let f = &st.files[*fi];
        let fname = f.path.rsplit('/').next().unwrap();
        match v["verdict"].as_str() {
            Some("ok") => {
                converted += 1;
                ctx.nontriv(1);
                if v["n_defects"].as_u64().unwrap_or(0) > 0 || v["checker_warnings"].as_u64().unwrap_or(0) > 0 {
                    ctx.violation(&format!("closure:shipped-project:{}", v["defects"][0].as_str().unwrap_or("checker").split(':').next().unwrap_or("")), &format!("{} converts to a model that is not closed: {} defects (first: {}), {} checker warnings", fname, v["n_defects"], v["defects"][0], v["checker_warnings"]), json!({"file": f.path}));
                }
            }
            Some("panic") => ctx.violation(&format!("panic:{}", panic_key(v["panic"].as_str().unwrap_or(""))), &format!("intact shipped file {} makes the conversion panic: {}", fname, v["panic"]), json!({"file": f.path})),
            Some("err") => {}
            other => ctx.violation(&format!("baseline:{:?}", other), &format!("{}: {:?}", fname, v), json!({"file": f.path})),
        }
    }
    sect.push(("a".into(), t_c02.elapsed().as_secs_f64()));
    // generated projects
    let specs = crate::projgen::all_specs(Tier::Quick);
    let gstride = ctx.tier.pick(9, 1);
    let sel: Vec<&crate::projgen::Spec> = specs.iter().step_by(gstride).collect();
    let gen_n = sel.len();
    par_for(sel.len() as u64, |gi| {
        let s = sel[gi as usize];
        ctx.eval(1);
        match corpus::convert_text(&crate::projgen::ctehexml_text(s), false) {
            corpus::Outcome::Ok(m) => {
                ctx.nontriv(1);
                let d = crate::refm::closure_defects(&m);
                if !d.is_empty() || !bemodel::check(&m).is_empty() {
                    ctx.violation("closure:generated-project", &format!("generated project converts to a model that is not closed: {:?}", d.iter().take(3).collect::<Vec<_>>()), json!({"spec": format!("{:?}", s)}));
                }
                // every space of an intact project keeps both links, to the definitions it names (the two names differ
                // on the upper storeys)
                for k in 0..s.storeys {
                    let sp = crate::projgen::space_name(k);
                    let Some(spc) = m.spaces.iter().find(|x| x.name == sp) else { continue };
                    let loads = spc.loads.and_then(|id| m.loads.iter().find(|l| l.id == id)).map(|l| l.name.clone());
                    let thermostat = spc.thermostat.and_then(|id| m.thermostats.iter().find(|l| l.id == id)).map(|l| l.name.clone());
                    let want_t = if k == 0 { "Residencial" } else { crate::projgen::SECOND_SYSTEM_CONDITIONS };
                    if loads.as_deref() != Some("Residencial") || thermostat.as_deref() != Some(want_t) {
                        ctx.violation("links:generated-project:space-conditions", &format!("space {} names the loads \"Residencial\" and the set-points {:?} but the model links it to loads {:?} and thermostat {:?}", sp, want_t, loads, thermostat), json!({"spec": format!("{:?}", s), "space": sp}));
                        break;
                    }
                }
            }
            corpus::Outcome::Err(e) => ctx.violation("convert:generated-project-rejected", &e, json!({"spec": format!("{:?}", s)})),
            corpus::Outcome::Panic(p) => ctx.violation(&format!("panic:{}", panic_key(&p)), &p, json!({"spec": format!("{:?}", s)})),
        }
        // the same project with the wall layers it defines copied twice under other names, each copy in use by one wall:
        // three definitions with one content (a library entry duplicated by the user) - closed, or rejected
        {
            let text = crate::projgen::ctehexml_text(s);
            let own = format!("\"{}\" = LAYERS", crate::projgen::OWN_LAYERS);
            if let Some(a) = text.find(&own) {
                let b = a + text[a..].find("\n    ..\n").map_or(0, |x| x + 8);
                let copies: String = ["copia", "copia 2"].iter().map(|c| text[a..b].replacen(&own, &format!("\"{} {}\" = LAYERS", crate::projgen::OWN_LAYERS, c), 1)).collect();
                let mut t2 = format!("{}{}{}", &text[..b], copies, &text[b..]);
                let mut done = 0;
                for (edge, c) in [(0usize, "copia"), (2, "copia 2")] {
                    let hdr = format!("\"{}\" = EXTERIOR-WALL", crate::projgen::wall_name(0, edge));
                    if let Some(w) = t2.find(&hdr) {
                        // the wall block and the CONSTRUCTION block that follows it
                        let e1 = w + t2[w..].find("\n    ..\n").map_or(0, |x| x + 8);
                        let e2 = e1 + t2[e1..].find("\n    ..\n").map_or(0, |x| x + 8);
                        let region = t2[w..e2].replace("\"Fachada por defecto D0.60\"", &format!("\"{} {}0.60\"", crate::projgen::OWN_LAYERS, c)).replace("LAYERS = \"Fachada por defecto D\"", &format!("LAYERS = \"{} {}\"", crate::projgen::OWN_LAYERS, c));
                        if region != t2[w..e2] {
                            t2 = format!("{}{}{}", &t2[..w], region, &t2[e2..]);
                            done += 1;
                        }
                    }
                }
                if done == 2 {
                    ctx.eval(1);
                    match corpus::convert_text(&t2, false) {
                        corpus::Outcome::Ok(m) => {
                            ctx.nontriv(1);
                            let d = crate::refm::closure_defects(&m);
                            if !d.is_empty() || !bemodel::check(&m).is_empty() {
                                ctx.violation("closure:generated-project:three-definitions-with-one-content", &format!("wall layers defined three times under different names, each in use: the converted model is not closed: {:?}", d.iter().take(3).collect::<Vec<_>>()), json!({"spec": format!("{:?}", s)}));
                            }
                            // every wall still resolves to layers of that content
                            for w in &m.walls {
                                if let Some(c) = m.cons.wallcons.iter().find(|c| c.id == w.cons) {
                                    let _ = c;
                                } else {
                                    ctx.violation("closure:generated-project:three-definitions-with-one-content", &format!("wall {} has no construction in the model", w.name), json!({"spec": format!("{:?}", s)}));
                                    break;
                                }
                            }
                        }
                        corpus::Outcome::Err(_) => {}
                        corpus::Outcome::Panic(p) => ctx.violation(&format!("panic:{}", panic_key(&p)), &p, json!({"spec": format!("{:?}", s), "variant": "three definitions with one content"})),
                    }
                }
            }
        }
        // the same project with one more space that owns no element of its own and is only named as the other side of
        // the slab between the storeys: closed, or rejected
        if s.storeys == 2 {
            let text = crate::projgen::ctehexml_text(s);
            let (sp0, sp1) = (crate::projgen::space_name(0), crate::projgen::space_name(1));
            let hdr = format!("\"{}\" = SPACE", sp0);
            let pol1 = format!("\"{}_Pol\" = POLYGON", sp1);
            let slab = format!("\"{}_FI001\" = INTERIOR-WALL", sp1);
            if let (Some(a), Some(ins), Some(sl)) = (text.find(&hdr), text.find(&pol1), text.find(&slab)) {
                let b = a + text[a..].find("\n    ..\n").map_or(0, |x| x + 8);
                let extra = text[a..b].replace(&hdr, "\"P01_E99\" = SPACE").replace(&format!("nCompleto = \"{}\"", sp0), "nCompleto = \"P01_E99\"");
                let slab_end = sl + text[sl..].find("\n    ..\n").map_or(0, |x| x + 8);
                let slab_new = text[sl..slab_end].replace(&format!("NEXT-TO = \"{}\"", sp0), "NEXT-TO = \"P01_E99\"");
                if b > a && ins > b && sl > ins && slab_new != text[sl..slab_end] {
                    let t2 = format!("{}{}{}{}{}", &text[..ins], extra, &text[ins..sl], slab_new, &text[slab_end..]);
                    ctx.eval(1);
                    match corpus::convert_text(&t2, false) {
                        corpus::Outcome::Ok(m) => {
                            ctx.nontriv(1);
                            let d = crate::refm::closure_defects(&m);
                            if !d.is_empty() || !bemodel::check(&m).is_empty() {
                                ctx.violation("closure:generated-project:space-without-elements-as-adjacent-space", &format!("a space that owns no element and is the other side of a slab: the converted model is not closed: {:?}", d.iter().take(3).collect::<Vec<_>>()), json!({"spec": format!("{:?}", s), "extra_space": "P01_E99"}));
                            }
                        }
                        corpus::Outcome::Err(_) => {}
                        corpus::Outcome::Panic(p) => ctx.violation(&format!("panic:{}", panic_key(&p)), &p, json!({"spec": format!("{:?}", s), "extra_space": "P01_E99"})),
                    }
                }
            }
        }
    });
    sect.push(("generated".into(), t_c02.elapsed().as_secs_f64()));
    // (b') name clashes across definition kinds: a definition of kind B (and all references to it) is renamed to the
    // name of a definition of kind A; every kind has its own namespace, so the conversion must give the same model
    let mut clash_n = 0;
    {
        let kinds: [(&str, &[&str]); 8] = [
            ("DAY-SCHEDULE-PD", &["DAY-SCHEDULES"]),
            ("WEEK-SCHEDULE-PD", &["WEEK-SCHEDULES"]),
            ("SCHEDULE-PD", &["PEOPLE-SCHEDULE", "LIGHTING-SCHEDULE", "EQUIP-SCHEDULE", "HEAT-TEMP-SCH", "COOL-TEMP-SCH", "INF-SCHEDULE", "HEATING-SCHEDULE", "COOLING-SCHEDULE", "FAN-SCHEDULE", "SEASON-SCH"]),
            ("MATERIAL", &["MATERIAL"]),
            ("GLASS-TYPE", &["GLASS-TYPE"]),
            ("NAME-FRAME", &["NAME-FRAME"]),
            ("GAP", &["GAP"]),
            ("POLYGON", &["POLYGON"]),
        ];
        let mut texts: Vec<(String, String)> = vec![("cubo.ctehexml".into(), corpus::read_utf8(&format!("{}/cubo/cubo.ctehexml", corpus::tests_dir())))];
        texts.push(("generated".into(), crate::projgen::ctehexml_text(&crate::projgen::all_specs(Tier::Quick)[7])));
        for (tname, text) in &texts {
            let Some(b0) = text.find("<EntradaGraficaLIDER>") else { continue };
            let lx = bdl::lex(text[b0..].trim_start_matches("<EntradaGraficaLIDER>").trim_start().trim_start_matches("<![CDATA["));
            let base = convert_outcome(Fmt::Ctehexml, text);
            for (ka, _) in kinds.iter() {
                for (kb, refkeys) in kinds.iter() {
                    if ka == kb {
                        continue;
                    }
                    // only kinds of one family share a realistic namespace confusion; all ordered pairs are cheap anyway
                    let Some(a) = lx.blocks.iter().find(|b| b.btype == *ka) else { continue };
                    // a definition of kind B that is actually referenced somewhere
                    let Some(b) = lx.blocks.iter().filter(|b| b.btype == *kb).find(|b| lx.blocks.iter().any(|x| x.attrs.iter().any(|(k, v)| refkeys.contains(&k.as_str()) && bdl::names_in(v).contains(&b.name)))) else { continue };
                    if a.name == b.name {
                        continue;
                    }
                    // rename: header of b, and every reference with one of B's reference keys
                    let mut out = String::new();
                    let mut cur_key_is_ref = false;
                    for l in text.split_inclusive('\n') {
                        let t = l.trim();
                        let mut line = l.to_string();
                        if t.starts_with(&format!("\"{}\"", b.name)) && t.ends_with(&format!("= {}", kb)) {
                            line = l.replacen(&format!("\"{}\"", b.name), &format!("\"{}\"", a.name), 1);
                        } else if let Some((k, _)) = t.split_once('=') {
                            cur_key_is_ref = refkeys.contains(&k.trim());
                            if cur_key_is_ref {
                                line = l.replace(&format!("\"{}\"", b.name), &format!("\"{}\"", a.name));
                            }
                        } else if cur_key_is_ref && t.starts_with('"') {
                            line = l.replace(&format!("\"{}\"", b.name), &format!("\"{}\"", a.name));
                        }
                        out.push_str(&line);
                    }
                    clash_n += 1;
                    ctx.eval(1);
                    ctx.nontriv(1);
                    let v = convert_outcome(Fmt::Ctehexml, &out);
                    let case = json!({"part": "name-clash", "project": tname, "renamed": format!("{} {:?} -> {:?} (the name of a {})", kb, b.name, a.name, ka)});
                    match v["verdict"].as_str() {
                        Some("ok") => {
                            if v["n_defects"].as_u64().unwrap_or(0) > 0 || v["checker_warnings"].as_u64().unwrap_or(0) > 0 {
                                ctx.violation(&format!("name-clash-yields-open-model:{}", v["defects"][0].as_str().unwrap_or("checker").split(':').next().unwrap_or("")), &format!("a {} named like a {} ({:?}): the model has missing/nil links: {}", kb, ka, a.name, v["defects"]), case);
                            } else if v["census"] != base["census"] && base["verdict"] == "ok" {
                                ctx.violation(&format!("name-clash-loses-items:{}~{}", kb, ka), &format!("a {} named like a {} ({:?}): census {} vs {} for the original names", kb, ka, a.name, v["census"], base["census"]), case);
                            }
                        }
                        Some("panic") => ctx.violation(&format!("panic:{}", panic_key(v["panic"].as_str().unwrap_or(""))), &format!("name clash {} ~ {} panics: {}", kb, ka, v["panic"]), case),
                        _ => {} // an error is an acceptable answer
                    }
                    // ... and with the renamed definition itself removed: the references to it now name something that
                    // only exists as a definition of the other kind - rejected, or closed
                    let hdr = format!("\"{}\" = {}", a.name, kb);
                    if let Some(p0) = out.lines().position(|l| l.trim() == hdr) {
                        let lines: Vec<&str> = out.split_inclusive('\n').collect();
                        if let Some(p1) = (p0..lines.len()).find(|i| lines[*i].trim() == "..") {
                            let out2: String = lines[..p0].iter().chain(lines[p1 + 1..].iter()).copied().collect();
                            clash_n += 1;
                            ctx.eval(1);
                            let v2 = convert_outcome(Fmt::Ctehexml, &out2);
                            let case2 = json!({"part": "name-clash", "project": tname, "renamed": format!("{} {:?} -> {:?} (the name of a {})", kb, b.name, a.name, ka), "then": "the renamed definition removed"});
                            match v2["verdict"].as_str() {
                                Some("ok") => {
                                    ctx.nontriv(1);
                                    if v2["n_defects"].as_u64().unwrap_or(0) > 0 || v2["checker_warnings"].as_u64().unwrap_or(0) > 0 {
                                        ctx.violation(&format!("reference-resolved-by-a-definition-of-another-kind:{}", v2["defects"][0].as_str().unwrap_or("checker").split(':').next().unwrap_or("")), &format!("references to a removed {} named {:?} are taken for the {} of that name: the model has missing/nil links: {}", kb, a.name, ka, v2["defects"]), case2);
                                    }
                                }
                                Some("panic") => ctx.violation(&format!("panic:{}", panic_key(v2["panic"].as_str().unwrap_or(""))), &format!("removed {} whose name a {} shares: {}", kb, ka, v2["panic"]), case2),
                                _ => {}
                            }
                        }
                    }
                }
            }
        }
    }
    sect.push(("clash".into(), t_c02.elapsed().as_secs_f64()));
    // (b'') a referenced definition (with all references to it) renamed to an unusual but legal name: nothing else changes
    let mut awkward_n = 0;
    {
        let kinds: [(&str, &[&str]); 10] = [
            ("DAY-SCHEDULE-PD", &["DAY-SCHEDULES"]),
            ("WEEK-SCHEDULE-PD", &["WEEK-SCHEDULES"]),
            ("SCHEDULE-PD", &["PEOPLE-SCHEDULE", "LIGHTING-SCHEDULE", "EQUIP-SCHEDULE", "HEAT-TEMP-SCH", "COOL-TEMP-SCH", "INF-SCHEDULE", "HEATING-SCHEDULE", "COOLING-SCHEDULE", "FAN-SCHEDULE", "SEASON-SCH"]),
            ("MATERIAL", &["MATERIAL"]),
            ("GLASS-TYPE", &["GLASS-TYPE"]),
            ("NAME-FRAME", &["NAME-FRAME"]),
            ("GAP", &["GAP"]),
            ("POLYGON", &["POLYGON"]),
            ("CONSTRUCTION", &["CONSTRUCTION"]),
            ("LAYERS", &["LAYERS"]),
        ];
        let long = "x".repeat(100);
        let names: [&str; 4] = ["Nombre  con  dos  blancos", "Con, comas (y parentesis)", "ñandú € 𝜆 24 cm", long.as_str()];
        let texts: Vec<(String, String)> = vec![("cubo.ctehexml".into(), corpus::read_utf8(&format!("{}/cubo/cubo.ctehexml", corpus::tests_dir()))), ("generated".into(), crate::projgen::ctehexml_text(&crate::projgen::all_specs(Tier::Quick)[7]))];
        for (tname, text) in &texts {
            let Some(b0) = text.find("<EntradaGraficaLIDER>") else { continue };
            let lx = bdl::lex(text[b0..].trim_start_matches("<EntradaGraficaLIDER>").trim_start().trim_start_matches("<![CDATA["));
            let base = convert_outcome(Fmt::Ctehexml, text);
            for (kb, refkeys) in kinds.iter() {
                // every referenced definition of the kind (up to 12), one at a time
                for b in lx.blocks.iter().filter(|b| b.btype == *kb).filter(|b| lx.blocks.iter().any(|x| x.attrs.iter().any(|(k, v)| refkeys.contains(&k.as_str()) && bdl::names_in(v).contains(&b.name)))).take(12) {
                // ... and the name of another referenced definition of the same kind written in capitals (names are case-sensitive)
                let other_upper: Option<String> = lx.blocks.iter().filter(|x| x.btype == *kb && x.name != b.name && x.name.to_uppercase() != x.name).find(|x| lx.blocks.iter().any(|y| y.attrs.iter().any(|(k, v)| refkeys.contains(&k.as_str()) && bdl::names_in(v).contains(&x.name)))).map(|x| x.name.to_uppercase());
                let mut all_names: Vec<&str> = names.to_vec();
                if let Some(u) = &other_upper {
                    all_names.push(u.as_str());
                }
                for newname in all_names {
                    let mut out = String::new();
                    let mut cur_key_is_ref = false;
                    for l in text.split_inclusive('\n') {
                        let t = l.trim();
                        let mut line = l.to_string();
                        if t.starts_with(&format!("\"{}\"", b.name)) && t.ends_with(&format!("= {}", kb)) {
                            line = l.replacen(&format!("\"{}\"", b.name), &format!("\"{}\"", newname), 1);
                        } else if let Some((k, _)) = t.split_once('=') {
                            cur_key_is_ref = refkeys.contains(&k.trim());
                            if cur_key_is_ref {
                                line = l.replace(&format!("\"{}\"", b.name), &format!("\"{}\"", newname));
                            }
                        } else if cur_key_is_ref && t.starts_with('"') {
                            line = l.replace(&format!("\"{}\"", b.name), &format!("\"{}\"", newname));
                        }
                        out.push_str(&line);
                    }
                    awkward_n += 1;
                    ctx.eval(1);
                    ctx.nontriv(1);
                    let v = convert_outcome(Fmt::Ctehexml, &out);
                    let case = json!({"part": "unusual-name", "project": tname, "renamed": format!("{} {:?} -> {:?}", kb, b.name, newname)});
                    match v["verdict"].as_str() {
                        Some("ok") => {
                            if v["n_defects"].as_u64().unwrap_or(0) > 0 || v["checker_warnings"].as_u64().unwrap_or(0) > 0 {
                                ctx.violation(&format!("unusual-name-yields-open-model:{}:{}", kb, v["defects"][0].as_str().unwrap_or("checker").split(':').next().unwrap_or("")), &format!("a {} named {:?}: the model has missing/nil links: {}", kb, newname, v["defects"]), case);
                            } else if v["census"] != base["census"] && base["verdict"] == "ok" {
                                ctx.violation(&format!("unusual-name-loses-items:{}", kb), &format!("a {} named {:?}: census {} vs {} for the original name", kb, newname, v["census"], base["census"]), case);
                            }
                        }
                        Some("panic") => ctx.violation(&format!("panic:{}", panic_key(v["panic"].as_str().unwrap_or(""))), &format!("a {} named {:?} panics: {}", kb, newname, v["panic"]), case),
                        // (an error is an acceptable answer under this property: some readers normalise blanks inside names)
                        _ => {}
                    }
                }
                }
            }
        }
    }
    sect.push(("unusual-names".into(), t_c02.elapsed().as_secs_f64()));
    // (d) the same breakage on the parsed project data (what an importer, a script or a later pass hands to the
    // converter): one name reference of one element redirected to an unknown name, one element renamed under its
    // referrers, one catalogue entry or schedule removed
    let mut data_n = 0u64;
    {
        let mut texts: Vec<(String, String, bool)> = vec![];
        let mut sized: Vec<&FileCases> = st.files.iter().filter(|f| matches!(f.fmt, Fmt::Ctehexml)).collect();
        sized.sort_by_key(|f| f.lines.len());
        for f in sized.iter().take(ctx.tier.pick(3, 12)) {
            texts.push((f.path.rsplit('/').next().unwrap().to_string(), corpus::read_utf8(&f.path), false));
        }
        let mut sized: Vec<&FileCases> = st.files.iter().filter(|f| matches!(f.fmt, Fmt::Cte)).collect();
        sized.sort_by_key(|f| f.lines.len());
        for f in sized.iter().take(ctx.tier.pick(2, 56)) {
            texts.push((f.path.rsplit('/').next().unwrap().to_string(), corpus::read_latin1(&f.path), true));
        }
        for sp in specs.iter().step_by(ctx.tier.pick(97, 9)) {
            texts.push((format!("generated {:?}", sp), crate::projgen::ctehexml_text(sp), false));
        }
        let cnt = std::sync::atomic::AtomicU64::new(0);
        par_for(texts.len() as u64, |ti| {
            let (name, text, is_cte) = &texts[ti as usize];
            let Ok(Ok(d0)) = catch(std::panic::AssertUnwindSafe(|| if *is_cte { corpus::parse_cte_text(text) } else { corpus::parse_ctehexml_text(text) })) else { return };
            if !matches!(catch(std::panic::AssertUnwindSafe(|| corpus::convert(&d0))), Ok(Ok(_))) {
                return;
            }
            let b = &d0.bdldata;
            let mut edits: Vec<(String, Box<dyn Fn(&mut hulc::bdl::Data) + Sync>)> = vec![];
            for i in 0..b.walls.len() {
                edits.push((format!("walls[{}] ({}) .space -> unknown", i, b.walls[i].name), Box::new(move |d| d.walls[i].space = "ZZ unknown".into())));
                edits.push((format!("walls[{}] ({}) .cons -> unknown", i, b.walls[i].name), Box::new(move |d| d.walls[i].cons = "ZZ unknown".into())));
                if b.walls[i].nextto.is_some() {
                    edits.push((format!("walls[{}] ({}) .nextto -> unknown", i, b.walls[i].name), Box::new(move |d| d.walls[i].nextto = Some("ZZ unknown".into()))));
                }
                edits.push((format!("walls[{}] ({}) renamed under its windows", i, b.walls[i].name), Box::new(move |d| d.walls[i].name = "ZZ renamed".into())));
            }
            for i in 0..b.windows.len() {
                edits.push((format!("windows[{}] ({}) .wall -> unknown", i, b.windows[i].name), Box::new(move |d| d.windows[i].wall = "ZZ unknown".into())));
                edits.push((format!("windows[{}] ({}) .cons -> unknown", i, b.windows[i].name), Box::new(move |d| d.windows[i].cons = "ZZ unknown".into())));
                edits.push((format!("windows[{}] ({}) without shading devices, .wall -> unknown", i, b.windows[i].name), Box::new(move |d| {
                    d.windows[i].wall = "ZZ unknown".into();
                    d.windows[i].overhang = None;
                    d.windows[i].left_fin = None;
                    d.windows[i].right_fin = None;
                })));
            }
            for i in 0..b.spaces.len() {
                edits.push((format!("spaces[{}] ({}) renamed under its walls", i, b.spaces[i].name), Box::new(move |d| d.spaces[i].name = "ZZ renamed".into())));
            }
            for k in b.db.wallcons.keys().cloned() {
                edits.push((format!("db.wallcons[{:?}] removed", k), Box::new(move |d| { d.db.wallcons.remove(&k); })));
            }
            for k in b.db.wincons.keys().cloned() {
                edits.push((format!("db.wincons[{:?}] removed", k), Box::new(move |d| { d.db.wincons.remove(&k); })));
            }
            // only entries some construction of the project uses (the catalogue has thousands that nobody refers to)
            let used_mats: std::collections::BTreeSet<String> = b.db.wallcons.values().flat_map(|c| c.material.iter().cloned()).collect();
            for k in used_mats {
                edits.push((format!("db.materials[{:?}] removed", k), Box::new(move |d| { d.db.materials.remove(&k); })));
            }
            let used_glass: std::collections::BTreeSet<String> = b.db.wincons.values().map(|c| c.glass.clone()).collect();
            for k in used_glass {
                edits.push((format!("db.glasses[{:?}] removed", k), Box::new(move |d| { d.db.glasses.remove(&k); })));
            }
            let used_frames: std::collections::BTreeSet<String> = b.db.wincons.values().map(|c| c.frame.clone()).collect();
            for k in used_frames {
                edits.push((format!("db.frames[{:?}] removed", k), Box::new(move |d| { d.db.frames.remove(&k); })));
            }
            for i in 0..b.schedules.len() {
                edits.push((format!("schedules[{}] removed", i), Box::new(move |d| { d.schedules.remove(i); })));
            }
            for (what, f) in &edits {
                let mut d = d0.clone();
                f(&mut d.bdldata);
                cnt.fetch_add(1, std::sync::atomic::Ordering::Relaxed);
                let case = || json!({"part": "data-level", "project": name, "edit": what});
                match catch(std::panic::AssertUnwindSafe(|| corpus::convert(&d))) {
                    Ok(Ok(m)) => {
                        let defects = crate::refm::closure_defects(&m);
                        let warns = bemodel::check(&m).len();
                        if !defects.is_empty() || warns > 0 {
                            let kind = what.split(|c: char| c == '[').next().unwrap_or("").to_string() + what.rsplit(')').next().unwrap_or("").trim();
                            ctx.violation(&format!("broken-data-yields-open-model:{}", kind.replace(' ', "")), &format!("{}: {} still converts, to a model with missing/nil links: {:?} ({} checker warnings)", name, what, defects.iter().take(3).collect::<Vec<_>>(), warns), case());
                        }
                    }
                    Ok(Err(_)) => ctx.nontriv(1),
                    Err(p) => ctx.violation(&format!("panic:{}", panic_key(&p)), &format!("{}: {} makes the conversion panic: {}", name, what, p), case()),
                }
            }
        });
        data_n += cnt.load(std::sync::atomic::Ordering::Relaxed);
        ctx.eval(data_n);
        ctx.sample(json!({"part": "data-level", "project": "cubo.ctehexml", "edit": "windows[0] .wall -> unknown", "oracle": "Err, or a closed model"}));
    }
    sect.push(("data-level".into(), t_c02.elapsed().as_secs_f64()));
    // (e) a WINDOW block moved to another place of the document (its parent is the block it follows): behind the first
    // block of every other type and to the very beginning of the building description
    let mut moved_n = 0u64;
    {
        let mut sized: Vec<&FileCases> = st.files.iter().filter(|f| matches!(f.fmt, Fmt::Ctehexml)).collect();
        sized.sort_by_key(|f| f.lines.len());
        let mut texts: Vec<(String, String)> = sized.iter().take(ctx.tier.pick(2, 12)).map(|f| (f.path.rsplit('/').next().unwrap().to_string(), corpus::read_utf8(&f.path))).collect();
        texts.push(("generated".into(), crate::projgen::ctehexml_text(&specs[specs.len() / 2])));
        for (name, text) in &texts {
            let blocks = text_blocks(text);
            let Some(w) = blocks.iter().find(|b| b.0 == "WINDOW").cloned() else { continue };
            let wtext = text[w.1..w.2].to_string();
            let without = format!("{}{}", &text[..w.1], &text[w.2..]);
            let blocks = text_blocks(&without);
            let mut seen = std::collections::BTreeSet::new();
            let mut targets: Vec<(String, usize)> = vec![];
            if let Some(first) = blocks.first() {
                targets.push(("the beginning".into(), first.1));
            }
            for b in &blocks {
                if seen.insert(b.0.clone()) {
                    targets.push((format!("behind the first {}", b.0), b.2));
                }
            }
            for (place, pos) in targets {
                let t1 = format!("{}{}{}", &without[..pos], wtext, &without[pos..]);
                moved_n += 1;
                let case = json!({"part": "moved-window", "project": name, "window_block_moved_to": place});
                match corpus::convert_text(&t1, false) {
                    corpus::Outcome::Ok(m) => {
                        let defects = crate::refm::closure_defects(&m);
                        let warns = bemodel::check(&m).len();
                        if !defects.is_empty() || warns > 0 {
                            ctx.violation(&format!("moved-window-yields-open-model:{}", place.rsplit(' ').next().unwrap_or("")), &format!("{}: a WINDOW block moved to {} still converts, to a model with missing/nil links: {:?} ({} checker warnings)", name, place, defects.iter().take(3).collect::<Vec<_>>(), warns), case);
                        }
                    }
                    corpus::Outcome::Err(_) => ctx.nontriv(1),
                    corpus::Outcome::Panic(p) => ctx.violation(&format!("panic:{}", panic_key(&p)), &format!("{}: WINDOW block moved to {}: {}", name, place, p), case),
                }
            }
        }
        ctx.eval(moved_n);
    }
    sect.push(("moved-window".into(), t_c02.elapsed().as_secs_f64()));
    // (f) the verdict on a damaged project does not depend on what the process converted before: every "definition
    // removed" variant of the smallest projects as the only conversion of a fresh process and straight after the
    // intact project in one process
    let mut hist_n = 0u64;
    {
        let mut sized: Vec<usize> = st.files.iter().enumerate().filter(|(_, f)| matches!(f.fmt, Fmt::Ctehexml)).map(|(i, _)| i).collect();
        sized.sort_by_key(|i| st.files[*i].lines.len());
        let mut hidx: Vec<u64> = vec![];
        for fi in sized.into_iter().take(ctx.tier.pick(2, 12)) {
            let f = &st.files[fi];
            let n = f.lines.len() as u64;
            for (b, (a, _)) in f.blocks.iter().enumerate() {
                let ty = f.lines[*a].trim().rsplit('=').next().unwrap_or("").trim().to_string();
                if DEF_BLOCKS.contains(&ty.as_str()) {
                    hidx.push(st.offsets[fi] + 3 * n + b as u64);
                }
            }
        }
        let fresh: Mutex<BTreeMap<u64, String>> = Mutex::new(BTreeMap::new());
        sup::supervise("c02fresh", &hidx, std::time::Duration::from_secs(60), &|idx, v| {
            fresh.lock().unwrap().insert(idx, v["verdict"].as_str().unwrap_or("?").to_string());
            true
        });
        let fresh = fresh.into_inner().unwrap();
        sup::supervise("c02hist", &hidx, std::time::Duration::from_secs(60), &|idx, v| {
            ctx.eval(1);
            let after = v["verdict"].as_str().unwrap_or("?");
            if let Some(alone) = fresh.get(&idx) {
                if alone != after && (alone == "ok" || alone == "err") && (after == "ok" || after == "err") {
                    let fi = st.offsets.partition_point(|o| *o <= idx) - 1;
                    let (kind, descr) = st.files[fi].describe(idx - st.offsets[fi]);
                    ctx.violation(&format!("verdict-depends-on-history:{}->{}", alone, after), &format!("{} ({}): '{}' as the only conversion of a process but '{}' when the intact project was converted before it in the same process", kind, descr["header"].as_str().unwrap_or(""), alone, after), json!({"case": descr, "index": idx, "history": ["intact project", "damaged project"]}));
                }
            }
            true
        });
        hist_n += hidx.len() as u64;
    }
    sect.push(("history".into(), t_c02.elapsed().as_secs_f64()));
    // (c) single broken references / removed definitions
    let idxs = c02_indices(&st, ctx.tier);
    let tally = Mutex::new((0u64, 0u64, 0u64));
    sup::supervise("c02", &idxs, std::time::Duration::from_secs(30), &|idx, v| {
        let fi = st.offsets.partition_point(|o| *o <= idx) - 1;
        let f = &st.files[fi];
        let (kind, descr) = f.describe(idx - st.offsets[fi]);
        ctx.eval(1);
        let Some(base) = baselines.get(&fi) else { return true };
        if base["verdict"] != "ok" {
            return true; // projects that do not convert in the first place are C19's business
        }
        let mut t = tally.lock().unwrap();
        match v["verdict"].as_str() {
            Some("err") => {
                t.1 += 1;
                ctx.nontriv(1);
            }
            Some("ok") => {
                t.0 += 1;
                let what = descr["name"].as_str().map(|n| format!("reference to {:?}", n)).unwrap_or_else(|| format!("definition {}", descr["header"].as_str().unwrap_or("")));
                if v["n_defects"].as_u64().unwrap_or(0) > 0 || v["checker_warnings"].as_u64().unwrap_or(0) > 0 {
                    drop(t);
                    let kindname = v["defects"][0].as_str().unwrap_or("checker").split(':').next().unwrap_or("").to_string();
                    ctx.violation(&format!("broken-reference-yields-open-model:{}", kindname), &format!("{} ({}) still converts, to a model with missing/nil links: {}", kind, what, v["defects"]), json!({"case": descr, "index": idx, "result": v}));
                    return true;
                }
                let (a, b) = (v["census"].as_array().cloned().unwrap_or_default(), base["census"].as_array().cloned().unwrap_or_default());
                // a renamed reference removes nothing: the census must be identical; a removed definition may take its own
                // (possibly unused) item away, but no element and no link of a surviving element may disappear
                let (a, b) = if kind == "rename-reference" { (a, b) } else { (a.into_iter().take(8).collect::<Vec<_>>(), b.into_iter().take(8).collect::<Vec<_>>()) };
                if kind.starts_with("number->") {
                    return true; // value damage: only closure is demanded of a successful conversion
                }
                if a != b {
                    let which: Vec<String> = (0..a.len().min(b.len())).filter(|i| a[*i] != b[*i]).map(|i| format!("{} {}->{}", CENSUS_NAMES[i], b[i], a[i])).collect();
                    let first = (0..a.len().min(b.len())).find(|i| a[*i] != b[*i]).map(|i| CENSUS_NAMES[i]).unwrap_or("?");
                    drop(t);
                    // the key names the attribute whose reference was broken (call-site level)
                    let attr = descr["text"].as_str().or(descr["header"].as_str()).unwrap_or("");
                    let akey = f.lines.get(descr["line"].as_u64().unwrap_or(1) as usize - 1).and_then(|l| l.split('=').next()).map(|k| k.trim().to_string()).unwrap_or_default();
                    let _ = attr;
                    ctx.violation(&format!("broken-reference-silently-dropped:{}:{}", if kind == "rename-reference" { akey } else { descr["header"].as_str().unwrap_or("").rsplit('=').next().unwrap_or("").trim().to_string() }, first), &format!("{} ({}) still converts and the model silently loses links/items: {}", kind, what, which.join(", ")), json!({"case": descr, "index": idx, "result": v}));
                    return true;
                }
            }
            Some("panic") => {
                t.2 += 1;
                ctx.nontriv(1);
                drop(t);
                let p = v["panic"].as_str().unwrap_or("");
                ctx.violation(&format!("panic:{}", panic_key(p)), &format!("{} makes the conversion panic: {}", kind, p), json!({"case": descr, "index": idx, "result": v}));
            }
            Some(other) => {
                drop(t);
                ctx.violation(&format!("{}:{}", other, kind), &format!("{} on {}: {}", kind, f.path, other), json!({"case": descr, "index": idx, "result": v}));
            }
            None => {}
        }
        true
    });
    let t = tally.lock().unwrap();
    ctx.outcome(&"closed");
    if t.1 > 0 {
        ctx.outcome(&"err");
    }
    if t.0 > 0 {
        ctx.outcome(&"still-ok");
    }
    ctx.note("tally", json!({"project_files": nfiles, "converted": converted, "generated_projects": gen_n, "name_clash_variants": clash_n, "unusual_name_variants": awkward_n, "broken_reference_edits": idxs.len(), "data_level_edits": data_n, "history_pairs": hist_n, "moved_window_variants": moved_n, "rejected_with_error": t.1, "still_converted_to_identical_closed_model": t.0, "panicked": t.2}));
    if let Some(i) = idxs.get(idxs.len() / 2) {
        let fi = st.offsets.partition_point(|o| *o <= *i) - 1;
        ctx.sample(json!({"edit": st.files[fi].describe(*i - st.offsets[fi]).1}));
    }
    sect.push(("single-edits".into(), t_c02.elapsed().as_secs_f64()));
    ctx.note("seconds_at_end_of_section", json!(sect));
    ctx.sample(json!({"part": "closure", "file": "cubo.ctehexml", "oracle": "ids unique per collection, 17 reference kinds resolve, no nil id, bemodel::check empty"}));
    ctx.finish(
        "fault_enumeration",
        "(a) every shipped project (12 .ctehexml with catalog, 56 legacy .cte with catalog + default general data) and generated projects: a successful conversion must be referentially closed (generated ones also: every space linked to the loads and the set-points it names, which carry different names on the upper storeys); the same closure oracle on every numeric token -> 0 and -> -1 of the smallest project of each format (3 smallest in thorough) (ids unique per collection, 17 reference kinds resolve, no nil id) and silent under bemodel::check; (b') every ordered pair of definition kinds (day/week/year schedule, material, glazing, frame, gap, polygon): a referenced definition of one kind renamed, with its references, to the name of a definition of the other kind (cubo and one generated project) must convert to the same closed model or fail; (b'') the same definitions renamed, with their references, to unusual legal names (double blanks, commas and parentheses, non-ASCII and astral letters, 100 letters, the name of another definition of the kind in capitals) must convert to the same closed model or fail; (d) on the parsed project data of the smallest projects of each format and generated ones: every wall's space / construction / adjacent-space name, every window's wall / construction name redirected to an unknown name (windows also with their shading devices removed), every wall and space renamed under its referrers, every construction, used material / glazing / frame and every schedule removed - the conversion must fail or give a closed model; (e) a WINDOW block moved behind the first block of every other type and to the beginning of the document; (f) every 'definition removed' variant of the smallest projects converted as the only conversion of a fresh process and straight after the intact project in one process: same verdict; (c) every project obtained by renaming one reference occurrence (attribute keys POLYGON, CONSTRUCTION, LAYERS, MATERIAL, GLASS-TYPE, NAME-FRAME, GAP, SPACE-/SYSTEM-CONDITIONS, NEXT-TO, DAY-/WEEK-SCHEDULES, *-SCHEDULE, *-TEMP-SCH, SPACE-TYPE) or removing one definition block (quick: the 3 smallest projects of each format; thorough: all): the outcome must be an error, or - when the broken name was not needed - a closed model with exactly the same census of elements and resolved links as the intact project; a model with missing/nil links, a silently dropped link, a panic or a timeout is a violation; non-trivial = conversion outcome differs from plain success",
        true,
        json!({}),
    )
}
