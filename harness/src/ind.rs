//! Reference recomputation of the global indicators from the *model* (f64), per the property statements
//! C08 (K), C09 (n50), C10 (q_sol;jul), C11 (areas, volumes, compactness, envelope membership)

use bemodel::energy::EnergyIndicators;
use bemodel::*;
use std::collections::BTreeMap;

#[derive(Clone, Copy, PartialEq, Eq, Debug, Hash, PartialOrd, Ord)]
pub enum TiltC {
    Top,
    Side,
    Bottom,
}

pub fn tilt_class(t: f64) -> TiltC {
    let t = t.rem_euclid(360.0);
    if t <= 60.0 {
        TiltC::Top
    } else if t < 120.0 {
        TiltC::Side
    } else if t < 240.0 {
        TiltC::Bottom
    } else if t < 300.0 {
        TiltC::Side
    } else {
        TiltC::Top
    }
}

/// orientation class name as serialised by the code ("N","NE",...,"HZ")
pub fn orient_class(az: f64) -> &'static str {
    let a = az.rem_euclid(360.0);
    if a < 18.0 {
        "S"
    } else if a < 69.0 {
        "SE"
    } else if a < 120.0 {
        "E"
    } else if a < 157.5 {
        "NE"
    } else if a < 202.5 {
        "N"
    } else if a < 240.0 {
        "NW"
    } else if a < 291.0 {
        "W"
    } else if a < 342.0 {
        "SW"
    } else {
        "S"
    }
}

pub fn wall_orient(w: &Wall) -> &'static str {
    match tilt_class(w.geometry.tilt as f64) {
        TiltC::Side => orient_class(w.geometry.azimuth as f64),
        _ => "HZ",
    }
}

pub fn poly_area(p: &Polygon) -> f64 {
    let n = p.len();
    if n < 2 {
        return 0.0;
    }
    let mut a = 0.0f64;
    for i in 0..n {
        let (v, w) = (p[i], p[(i + 1) % n]);
        a += v.x as f64 * w.y as f64 - v.y as f64 * w.x as f64;
    }
    (0.5 * a).abs()
}

pub fn is_tenv_ref(m: &Model, w: &Wall) -> bool {
    let inside = |id: Uuid| m.spaces.iter().find(|s| s.id == id).map_or(false, |s| s.inside_tenv);
    let this = inside(w.space);
    let next = w.next_to.map_or(false, inside);
    match w.bounds {
        BoundaryType::EXTERIOR | BoundaryType::GROUND | BoundaryType::ADIABATIC => this,
        BoundaryType::INTERIOR => this != next,
    }
}

fn space_of<'a>(m: &'a Model, id: Uuid) -> Option<&'a Space> {
    m.spaces.iter().find(|s| s.id == id)
}

pub fn space_area(m: &Model, s: &Space) -> f64 {
    m.walls.iter().filter(|w| w.space == s.id && tilt_class(w.geometry.tilt as f64) == TiltC::Bottom).map(|w| poly_area(&w.geometry.polygon)).sum()
}

/// thickness of the ceiling construction; None if ambiguous (several ceilings with different thickness)
pub fn ceiling_thickness(m: &Model, s: &Space) -> Option<f64> {
    let mut ths: Vec<f64> = vec![];
    for w in &m.walls {
        let c = tilt_class(w.geometry.tilt as f64);
        let is_ceiling = (c == TiltC::Top && w.space == s.id) || (c == TiltC::Bottom && w.next_to == Some(s.id));
        if is_ceiling {
            let th = m.cons.wallcons.iter().find(|c| c.id == w.cons).map_or(0.0, |c| c.layers.iter().map(|l| l.e as f64).sum::<f64>());
            ths.push(th);
        }
    }
    if ths.is_empty() {
        return Some(0.0);
    }
    if ths.iter().all(|t| (t - ths[0]).abs() < 1e-6) {
        Some(ths[0])
    } else {
        None
    }
}

pub fn wincons_u_ref(m: &Model, c: &WinCons) -> Option<f64> {
    let g = m.cons.glasses.iter().find(|g| g.id == c.glass)?;
    let f = m.cons.frames.iter().find(|g| g.id == c.frame)?;
    let u = (1.0 + c.delta_u as f64 / 100.0) * (f.u_value as f64 * c.f_f as f64 + g.u_value as f64 * (1.0 - c.f_f as f64));
    Some((u * 100.0).round() / 100.0)
}

#[derive(Debug, Default, Clone)]
pub struct RefInd {
    pub a_ref: f64,
    pub vol_gross: f64,
    pub vol_net: Option<f64>,
    pub exposed_area: f64,
    pub compactness: f64,
    pub tenv: BTreeMap<Uuid, bool>,
    // K
    pub k: f64,
    pub k_a: f64,
    pub k_au: f64,
    pub k_tol_a: f64,
    pub k_tol_au: f64,
    pub k_cat: BTreeMap<&'static str, (f64, f64, f64, f64)>, // a, au, umin, umax
    pub tb_cat: BTreeMap<String, (f64, f64)>,
    // n50
    pub n50_walls_a: f64,
    pub n50_windows_a: f64,
    pub n50_windows_ca: f64,
    pub n50_ref: f64,
    pub c_o: f64,
    // qsoljul
    pub q_gains: f64,
    pub q_a: f64,
    pub q_detail: BTreeMap<&'static str, (f64, f64)>, // orientation -> (gains, area)
    pub q_means: (f64, f64, f64, f64),                // irradiance, fshobst, gglshwi, f_f (area weighted sums / area)
}

/// U-values of walls are taken from the real `Wall::u_value` (C06 checks that function on its own);
/// f_shobst computed values are taken from props (C12 checks them on its own).
pub fn reference(m: &Model, ind: &EnergyIndicators) -> RefInd {
    let mut r = RefInd::default();
    let mult_of = |id: Uuid| space_of(m, id).map_or(1.0, |s| s.multiplier as f64);
    let mut vol_net_ok = true;
    let mut vol_net = 0.0;
    for s in &m.spaces {
        let a = space_area(m, s);
        let mu = s.multiplier as f64;
        if s.inside_tenv {
            r.vol_gross += a * s.height as f64 * mu;
            match ceiling_thickness(m, s) {
                Some(t) => vol_net += a * (s.height as f64 - t) * mu,
                None => vol_net_ok = false,
            }
            if s.kind != SpaceType::UNINHABITED {
                r.a_ref += a * mu;
            }
        }
    }
    r.vol_net = if vol_net_ok { Some(vol_net) } else { None };
    let zone_rows: BTreeMap<String, f64> = {
        // own lookup in the embedded monthly table: July = index 6, beam + diffuse
        let t = climatedata::MONTHLYRADDATA.lock().unwrap();
        t.iter().filter(|r| r.zone == m.meta.climate).map(|r| (serde_json::to_value(r.orientation).unwrap().as_str().unwrap().to_string(), r.dir[6] as f64 + r.dif[6] as f64)).collect()
    };
    r.c_o = if m.meta.is_new_building { 16.0 } else { 29.0 };
    let mut q_sums = (0.0, 0.0, 0.0, 0.0);
    for w in &m.walls {
        let tenv = is_tenv_ref(m, w);
        r.tenv.insert(w.id, tenv);
        let mu = mult_of(w.space);
        let gross = poly_area(&w.geometry.polygon);
        let wins: Vec<&Window> = m.windows.iter().filter(|v| v.wall == w.id).collect();
        let win_area: f64 = wins.iter().map(|v| v.geometry.width as f64 * v.geometry.height as f64).sum();
        let net = gross - win_area;
        let ext_or_gnd = matches!(w.bounds, BoundaryType::EXTERIOR | BoundaryType::GROUND);
        if tenv && ext_or_gnd {
            r.exposed_area += gross * mu;
            // K
            let u = m.overrides.walls.get(&w.id).and_then(|o| o.u_value).map(|u| u as f64).or(w.u_value(m).map(|u| u as f64)).unwrap_or(5.7);
            let cat = match (w.bounds, tilt_class(w.geometry.tilt as f64)) {
                (BoundaryType::GROUND, _) => "ground",
                (_, TiltC::Top) => "roofs",
                (_, TiltC::Bottom) => "floors",
                (_, TiltC::Side) => "walls",
            };
            let e = r.k_cat.entry(cat).or_insert((0.0, 0.0, f64::INFINITY, f64::NEG_INFINITY));
            e.0 += net * mu;
            e.1 += net * mu * u;
            e.2 = e.2.min(u);
            e.3 = e.3.max(u);
            r.k_a += net * mu;
            r.k_au += net * mu * u;
            r.k_tol_a += 0.0051 * mu;
            r.k_tol_au += 0.0051 * mu * u.abs();
            for v in &wins {
                let a = v.geometry.width as f64 * v.geometry.height as f64 * mu;
                let wc = m.cons.wincons.iter().find(|c| c.id == v.cons);
                let uw = m.overrides.windows.get(&v.id).and_then(|o| o.u_value).map(|u| u as f64).or(wc.and_then(|c| wincons_u_ref(m, c))).unwrap_or(5.7);
                let e = r.k_cat.entry("windows").or_insert((0.0, 0.0, f64::INFINITY, f64::NEG_INFINITY));
                e.0 += a;
                e.1 += a * uw;
                e.2 = e.2.min(uw);
                e.3 = e.3.max(uw);
                r.k_a += a;
                r.k_au += a * uw;
                r.k_tol_au += 0.0051 * a;
                // q_sol;jul
                let (g, ff) = match wc {
                    Some(c) => {
                        let gwi = m.cons.glasses.iter().find(|g| g.id == c.glass).map_or(0.77, |g| ((g.g_gln as f64 * 0.9) * 100.0).round() / 100.0);
                        let gsh = c.g_glshwi.map(|v| ((v as f64) * 100.0).round() / 100.0).unwrap_or(gwi);
                        (gsh, c.f_f as f64)
                    }
                    None => (0.77, 0.20),
                };
                let fsh = m.overrides.windows.get(&v.id).and_then(|o| o.f_shobst).map(|x| x as f64).or(ind.props.windows.get(&v.id).and_then(|p| p.f_shobst).map(|x| x as f64)).unwrap_or(1.0);
                let orient = wall_orient(w);
                let h = zone_rows.get(if orient == "HZ" { "HZ" } else { orient }).copied().unwrap_or(f64::NAN);
                let gains = fsh * g * (1.0 - ff) * a * h;
                r.q_gains += gains;
                r.q_a += a;
                let d = r.q_detail.entry(orient).or_insert((0.0, 0.0));
                d.0 += gains;
                d.1 += a;
                q_sums.0 += h * a;
                q_sums.1 += fsh * a;
                q_sums.2 += g * a;
                q_sums.3 += ff * a;
            }
        }
        if tenv && w.bounds == BoundaryType::EXTERIOR {
            r.n50_walls_a += net * mu;
            for v in &wins {
                let a = v.geometry.width as f64 * v.geometry.height as f64 * mu;
                let c = m.cons.wincons.iter().find(|c| c.id == v.cons).map_or(100.0, |c| c.c_100 as f64);
                r.n50_windows_a += a;
                r.n50_windows_ca += a * c;
            }
        }
    }
    if r.q_a > 0.0 {
        r.q_means = (q_sums.0 / r.q_a, q_sums.1 / r.q_a, q_sums.2 / r.q_a, q_sums.3 / r.q_a);
    }
    for tb in &m.thermal_bridges {
        if tb.l < 0.0 {
            continue;
        }
        let k = serde_json::to_value(tb.kind).unwrap().as_str().unwrap().to_string();
        let e = r.tb_cat.entry(k).or_insert((0.0, 0.0));
        e.0 += tb.l as f64;
        e.1 += tb.l as f64 * tb.psi as f64;
        r.k_au += tb.l as f64 * tb.psi as f64;
    }
    r.k = if r.k_a < 0.01 { 0.0 } else { r.k_au / r.k_a };
    r.compactness = if r.exposed_area == 0.0 { 0.0 } else { r.vol_gross / r.exposed_area };
    let vol = r.vol_net.unwrap_or(f64::NAN);
    r.n50_ref = if vol > 0.001 { 0.629 * (r.c_o * r.n50_walls_a + r.n50_windows_ca) / vol } else { 0.0 };
    r
}

pub fn close(a: f64, b: f64, abs: f64, rel: f64) -> bool {
    (a - b).abs() <= abs + rel * a.abs().max(b.abs())
}

/// mismatches as (key, message); `groups` selects which indicator families are compared
pub fn compare(m: &Model, ind: &EnergyIndicators, r: &RefInd, groups: &[&str]) -> Vec<(String, String)> {
    let mut out = vec![];
    let has = |g: &str| groups.contains(&g);
    // rounding slack on areas: fround2 on net areas / totals
    let nwalls = m.walls.len().max(1) as f64;
    let maxmult = m.spaces.iter().map(|s| s.multiplier as f64).fold(1.0, f64::max);
    let a_slack = 0.006 * nwalls * maxmult + 0.006;
    if has("tenv") {
        for w in &m.walls {
            if let Some(p) = ind.props.walls.get(&w.id) {
                if p.is_tenv != r.tenv[&w.id] {
                    out.push((format!("is_tenv:{:?}", w.bounds), format!("wall {} is_tenv={} expected {}", w.name, p.is_tenv, r.tenv[&w.id])));
                }
            }
        }
    }
    if has("areas") {
        if !close(ind.area_ref as f64, r.a_ref, 0.006, 1e-5) {
            out.push(("area_ref".into(), format!("area_ref={} expected {:.4}", ind.area_ref, r.a_ref)));
        }
        if !close(ind.vol_env_gross as f64, r.vol_gross, 0.006, 1e-5) {
            out.push(("vol_env_gross".into(), format!("vol_env_gross={} expected {:.4}", ind.vol_env_gross, r.vol_gross)));
        }
        if let Some(vn) = r.vol_net {
            if !close(ind.vol_env_net as f64, vn, 0.006 + 0.001 * r.a_ref.max(1.0), 1e-5) {
                out.push(("vol_env_net".into(), format!("vol_env_net={} expected {:.4}", ind.vol_env_net, vn)));
            }
        }
        let c_exp = r.compactness;
        if !close(ind.compactness as f64, c_exp, 1e-3 + if r.exposed_area > 0.0 { 0.006 / r.exposed_area } else { 0.0 }, 1e-4) {
            out.push(("compactness".into(), format!("compactness={} expected {:.5}", ind.compactness, c_exp)));
        }
        if ind.area_ref != ind.props.global.a_ref || ind.vol_env_net != ind.props.global.vol_env_net || ind.vol_env_gross != ind.props.global.vol_env_gross || ind.compactness != ind.props.global.compactness {
            out.push(("toplevel-vs-props.global".into(), "top-level figures differ from props.global".into()));
        }
        // ventilation rate reported == used
        let used = m.global_ventilation_rate();
        let rep = ind.props.global.global_ventilation_rate;
        if !(used == rep || close(used as f64, rep as f64, 1e-6, 1e-5)) {
            out.push(("global_ventilation_rate".into(), format!("reported {} but U-value calculation uses {}", rep, used)));
        }
    }
    if has("K") {
        let k = &ind.K_data;
        let lo = if r.k_a + r.k_tol_a > 0.0 { (r.k_au - r.k_tol_au) / (r.k_a + r.k_tol_a) } else { 0.0 };
        let hi = if r.k_a - r.k_tol_a > 0.01 { (r.k_au + r.k_tol_au) / (r.k_a - r.k_tol_a) } else { f64::INFINITY };
        let (lo, hi) = if lo <= hi { (lo, hi) } else { (hi, lo) };
        let kk = k.K as f64;
        let near_zero_area = (r.k_a - 0.01).abs() <= r.k_tol_a + 1e-4;
        if !near_zero_area && !(kk >= lo - 1e-4 * lo.abs() - 1e-4 && kk <= hi + 1e-4 * hi.abs() + 1e-4) {
            out.push(("K".into(), format!("K={} expected {:.5} in [{:.5},{:.5}] (A={:.3}, AU+psiL={:.3})", k.K, r.k, lo, hi, r.k_a, r.k_au)));
        }
        if !close(k.summary.a as f64, r.k_a, r.k_tol_a + 1e-3, 1e-5) {
            out.push(("K.summary.a".into(), format!("summary.a={} expected {:.4}", k.summary.a, r.k_a)));
        }
        if !close(k.summary.au as f64, r.k_au, r.k_tol_au + 1e-3, 1e-4) {
            out.push(("K.summary.au".into(), format!("summary.au={} expected {:.4}", k.summary.au, r.k_au)));
        }
        // categories
        for (name, e) in [("walls", &k.walls), ("roofs", &k.roofs), ("floors", &k.floors), ("ground", &k.ground), ("windows", &k.windows)] {
            let (a, au, umin, umax) = r.k_cat.get(name).copied().unwrap_or((0.0, 0.0, f64::INFINITY, f64::NEG_INFINITY));
            if !close(e.a as f64, a, r.k_tol_a + 1e-3, 1e-5) || !close(e.au as f64, au, r.k_tol_au + 1e-3, 1e-4) {
                out.push((format!("K.{}", name), format!("{}: a={} au={} expected a={:.4} au={:.4}", name, e.a, e.au, a, au)));
            }
            if umin.is_finite() {
                if e.u_min.map_or(true, |x| !close(x as f64, umin, 1e-4, 1e-5)) || e.u_max.map_or(true, |x| !close(x as f64, umax, 1e-4, 1e-5)) {
                    out.push((format!("K.{}.u_min_max", name), format!("{}: u_min={:?} u_max={:?} expected {:.3}/{:.3}", name, e.u_min, e.u_max, umin, umax)));
                }
            } else if e.u_min.is_some() || e.u_max.is_some() {
                out.push((format!("K.{}.u_min_max", name), format!("{}: u_min/u_max present without elements", name)));
            }
            if let Some(um) = e.u_mean {
                let (lo, hi) = (e.u_min.unwrap_or(f32::NAN) as f64, e.u_max.unwrap_or(f32::NAN) as f64);
                if !(um as f64 >= lo - 1e-3 - 1e-4 * lo.abs() && um as f64 <= hi + 1e-3 + 1e-4 * hi.abs()) {
                    out.push((format!("K.{}.u_mean-range", name), format!("{}: u_mean={} not in [{},{}]", name, um, lo, hi)));
                }
                if a > 0.01 && !close(um as f64, au / a, 1e-3 + (r.k_tol_au / a), 1e-3) {
                    out.push((format!("K.{}.u_mean", name), format!("{}: u_mean={} expected {:.4}", name, um, au / a)));
                }
            }
        }
        // breakdown adds up
        let s = &k.summary;
        if !close((k.walls.a + k.roofs.a + k.floors.a + k.ground.a) as f64, s.opaques_a as f64, 1e-3, 1e-5) || !close((s.opaques_a + s.windows_a) as f64, s.a as f64, 1e-3, 1e-5) || !close((s.opaques_au + s.windows_au + s.tbs_psil) as f64, s.au as f64, 1e-3, 1e-5) || !close(k.windows.a as f64, s.windows_a as f64, 1e-3, 1e-5) {
            out.push(("K.breakdown-sum".into(), "category sums do not add up to the totals".into()));
        }
        // bridges
        let tbs = [("ROOF", k.tbs.roof), ("BALCONY", k.tbs.balcony), ("CORNER", k.tbs.corner), ("INTERMEDIATEFLOOR", k.tbs.intermediate_floor), ("INTERNALWALL", k.tbs.internal_wall), ("GROUNDFLOOR", k.tbs.ground_floor), ("PILLAR", k.tbs.pillar), ("WINDOW", k.tbs.window), ("GENERIC", k.tbs.generic)];
        let (mut l, mut pl) = (0.0, 0.0);
        for (name, e) in tbs {
            let (el, epl) = r.tb_cat.get(name).copied().unwrap_or((0.0, 0.0));
            if !close(e.l as f64, el, 1e-4, 1e-5) || !close(e.psil as f64, epl, 1e-4, 1e-5) {
                out.push((format!("K.tbs.{}", name), format!("bridges {}: l={} psil={} expected {:.4}/{:.4}", name, e.l, e.psil, el, epl)));
            }
            l += e.l as f64;
            pl += e.psil as f64;
        }
        if !close(l, s.tbs_l as f64, 1e-3, 1e-5) || !close(pl, s.tbs_psil as f64, 1e-3, 1e-5) {
            out.push(("K.tbs.sum".into(), "bridge categories do not add up".into()));
        }
    }
    if has("n50") {
        let n = &ind.n50_data;
        let a_tol = a_slack;
        if !close(n.walls_a as f64, r.n50_walls_a, a_tol, 1e-5) {
            out.push(("n50.walls_a".into(), format!("walls_a={} expected {:.4}", n.walls_a, r.n50_walls_a)));
        }
        if !close(n.windows_a as f64, r.n50_windows_a, 1e-3, 1e-5) || !close(n.windows_c_a as f64, r.n50_windows_ca, 1e-2, 1e-5) {
            out.push(("n50.windows".into(), format!("windows_a={} c_a={} expected {:.4}/{:.4}", n.windows_a, n.windows_c_a, r.n50_windows_a, r.n50_windows_ca)));
        }
        if !close(n.walls_c_ref as f64, r.c_o, 1e-6, 0.0) {
            out.push(("n50.c_o".into(), format!("walls_c_ref={} expected {}", n.walls_c_ref, r.c_o)));
        }
        if let Some(vol) = r.vol_net {
            let vol_code = n.vol as f64;
            if !close(vol_code, vol, 0.006 + 0.001 * r.a_ref.max(1.0), 1e-5) {
                out.push(("n50.vol".into(), format!("vol={} expected {:.4}", n.vol, vol)));
            }
            if vol > 0.01 {
                let tol = 0.629 * (r.c_o * a_tol) / vol + 1e-4;
                if !close(n.n50_ref as f64, r.n50_ref, tol, 2e-4) {
                    out.push(("n50.n50_ref".into(), format!("n50_ref={} expected {:.5}", n.n50_ref, r.n50_ref)));
                }
                match m.meta.n50_test_ach {
                    Some(t) => {
                        if n.n50 != t {
                            out.push(("n50.test".into(), format!("n50={} but blower-door result is {}", n.n50, t)));
                        }
                        if r.n50_walls_a > 0.01 {
                            // reported wall permeability must satisfy the same equation
                            let back = 0.629 * (n.walls_c as f64 * n.walls_a as f64 + n.windows_c_a as f64) / vol_code;
                            if !close(back, t as f64, 1e-3, 1e-3) {
                                out.push(("n50.walls_c-backcalc".into(), format!("0.629*(C_o*A_o+sum)/V = {:.4} with reported C_o={} but n50_test={}", back, n.walls_c, t)));
                            }
                        }
                    }
                    None => {
                        if n.n50 != n.n50_ref {
                            out.push(("n50.noref".into(), format!("n50={} differs from n50_ref={}", n.n50, n.n50_ref)));
                        }
                        if n.walls_c != n.walls_c_ref {
                            out.push(("n50.walls_c".into(), format!("walls_c={} expected C_o={}", n.walls_c, n.walls_c_ref)));
                        }
                    }
                }
            } else if vol.abs() < 1e-9 && n.n50_ref != 0.0 {
                out.push(("n50.zero-volume".into(), format!("n50_ref={} with zero volume", n.n50_ref)));
            }
        }
    }
    if has("qsoljul") {
        let q = &ind.q_soljul_data;
        if !close(q.Q_soljul as f64, r.q_gains, 1e-3, 2e-4) {
            out.push(("qsoljul.Q".into(), format!("Q_soljul={} expected {:.4}", q.Q_soljul, r.q_gains)));
        }
        if !close(q.a_wp as f64, r.q_a, 1e-3, 1e-5) {
            out.push(("qsoljul.a_wp".into(), format!("a_wp={} expected {:.4}", q.a_wp, r.q_a)));
        }
        let qexp = if r.a_ref > 0.0 { r.q_gains / r.a_ref } else { 0.0 };
        if r.a_ref > 0.05 {
            if !close(q.q_soljul as f64, qexp, 1e-3 + qexp.abs() * 0.006 / r.a_ref, 3e-4) {
                out.push(("qsoljul.q".into(), format!("q_soljul={} expected {:.5}", q.q_soljul, qexp)));
            }
        } else if !q.q_soljul.is_finite() {
            out.push(("qsoljul.q-nonfinite".into(), format!("q_soljul={} with zero reference area", q.q_soljul)));
        }
        if r.q_a > 0.0 {
            let got = (q.irradiance_mean as f64, q.fshobst_mean as f64, q.gglshwi_mean as f64, q.f_f_mean as f64);
            let exp = r.q_means;
            if !close(got.0, exp.0, 1e-3, 1e-4) || !close(got.1, exp.1, 1e-4, 1e-4) || !close(got.2, exp.2, 1e-4, 1e-4) || !close(got.3, exp.3, 1e-4, 1e-4) {
                out.push(("qsoljul.means".into(), format!("means {:?} expected {:?}", got, exp)));
            }
        } else {
            for (n, v) in [("irradiance_mean", q.irradiance_mean), ("fshobst_mean", q.fshobst_mean), ("gglshwi_mean", q.gglshwi_mean), ("f_f_mean", q.f_f_mean), ("q_soljul", q.q_soljul), ("Q_soljul", q.Q_soljul)] {
                if !v.is_finite() {
                    out.push(("qsoljul.nonfinite-without-windows".into(), format!("{}={} for a model without envelope windows", n, v)));
                }
            }
        }
        // detail
        let mut sum_g = 0.0;
        let mut sum_a = 0.0;
        let mut seen = vec![];
        for (o, d) in &q.detail {
            let name = serde_json::to_value(o).unwrap().as_str().unwrap().to_string();
            let (eg, ea) = r.q_detail.iter().find(|(k, _)| **k == name.as_str()).map(|(_, v)| *v).unwrap_or((f64::NAN, f64::NAN));
            if !close(d.gains as f64, eg, 1e-3, 2e-4) || !close(d.a as f64, ea, 1e-3, 1e-5) {
                out.push(("qsoljul.detail".into(), format!("detail[{}] gains={} a={} expected {:.4}/{:.4}", name, d.gains, d.a, eg, ea)));
            }
            sum_g += d.gains as f64;
            sum_a += d.a as f64;
            seen.push(name);
        }
        for k in r.q_detail.keys() {
            if !seen.iter().any(|s| s == k) {
                out.push(("qsoljul.detail-missing".into(), format!("no detail entry for orientation {}", k)));
            }
        }
        if !close(sum_g, q.Q_soljul as f64, 1e-3, 1e-4) || !close(sum_a, q.a_wp as f64, 1e-3, 1e-5) {
            out.push(("qsoljul.breakdown-sum".into(), "per-orientation breakdown does not add up to totals".into()));
        }
    }
    out
}
