//! C14 — indicator computation is total (E2 fault enumeration over JSON edits + E3-style editor histories)

use crate::common::*;
use crate::gen::*;
use crate::refm;
use crate::sup;
use bemodel::*;
use serde_json::{json, Value};
use std::collections::{BTreeMap, HashSet};
use std::sync::Mutex;

// ---------------------------------------------------------------- JSON edits

#[derive(Clone, Debug)]
pub enum PE {
    K(String),
    I(usize),
}

#[derive(Clone, Debug)]
pub enum EditKind {
    DeleteKey,
    DeleteItem,
    EmptyArray,
    DupLast,
    Truncate,
    IdNil,
    IdOther,
    IdFresh,
    NumZero,
    NumNeg,
    /// a value just below zero (the residue of a rotation, a rounding): -1e-6
    NumTinyNeg,
    /// a name of 60 two-byte letters (every odd byte offset falls inside a letter) / the same behind one ASCII letter
    /// (every even offset does)
    NameWide(u8),
}

#[derive(Clone, Debug)]
pub struct Edit {
    pub path: Vec<PE>,
    pub kind: EditKind,
}

fn is_uuid(s: &str) -> bool {
    s.len() == 36 && Uuid::parse_str(s).is_ok()
}

pub fn enumerate_edits(v: &Value) -> Vec<Edit> {
    let mut out = vec![];
    fn rec(v: &Value, path: &mut Vec<PE>, out: &mut Vec<Edit>) {
        match v {
            Value::Object(m) => {
                for (k, c) in m {
                    path.push(PE::K(k.clone()));
                    out.push(Edit { path: path.clone(), kind: EditKind::DeleteKey });
                    rec(c, path, out);
                    path.pop();
                }
            }
            Value::Array(a) => {
                if !a.is_empty() {
                    out.push(Edit { path: path.clone(), kind: EditKind::EmptyArray });
                    out.push(Edit { path: path.clone(), kind: EditKind::DupLast });
                    out.push(Edit { path: path.clone(), kind: EditKind::Truncate });
                }
                for (i, c) in a.iter().enumerate() {
                    path.push(PE::I(i));
                    out.push(Edit { path: path.clone(), kind: EditKind::DeleteItem });
                    rec(c, path, out);
                    path.pop();
                }
            }
            Value::String(s) if is_uuid(s) => {
                out.push(Edit { path: path.clone(), kind: EditKind::IdNil });
                out.push(Edit { path: path.clone(), kind: EditKind::IdOther });
                out.push(Edit { path: path.clone(), kind: EditKind::IdFresh });
            }
            Value::String(_) if matches!(path.last(), Some(PE::K(k)) if k == "name") => {
                out.push(Edit { path: path.clone(), kind: EditKind::NameWide(0) });
                out.push(Edit { path: path.clone(), kind: EditKind::NameWide(1) });
            }
            Value::Number(n) => {
                out.push(Edit { path: path.clone(), kind: EditKind::NumZero });
                if n.as_f64().map_or(false, |x| x != 0.0) {
                    out.push(Edit { path: path.clone(), kind: EditKind::NumNeg });
                }
                if n.is_f64() {
                    out.push(Edit { path: path.clone(), kind: EditKind::NumTinyNeg });
                }
            }
            _ => {}
        }
    }
    rec(v, &mut vec![], &mut out);
    out
}

fn all_ids(v: &Value, out: &mut Vec<String>) {
    match v {
        Value::Object(m) => m.values().for_each(|c| all_ids(c, out)),
        Value::Array(a) => a.iter().for_each(|c| all_ids(c, out)),
        Value::String(s) if is_uuid(s) => {
            if !out.contains(s) {
                out.push(s.clone())
            }
        }
        _ => {}
    }
}

pub fn apply_edit(base: &Value, e: &Edit) -> Value {
    let mut v = base.clone();
    let ids = {
        let mut o = vec![];
        if matches!(e.kind, EditKind::IdOther) {
            all_ids(base, &mut o);
        }
        o
    };
    // navigate to parent for deletions, to node for others
    fn nav<'a>(v: &'a mut Value, path: &[PE]) -> &'a mut Value {
        let mut cur = v;
        for p in path {
            cur = match p {
                PE::K(k) => cur.get_mut(k.as_str()).unwrap(),
                PE::I(i) => cur.get_mut(*i).unwrap(),
            };
        }
        cur
    }
    match e.kind {
        EditKind::DeleteKey | EditKind::DeleteItem => {
            let (last, parent_path) = e.path.split_last().unwrap();
            let parent = nav(&mut v, parent_path);
            match last {
                PE::K(k) => {
                    parent.as_object_mut().unwrap().remove(k);
                }
                PE::I(i) => {
                    parent.as_array_mut().unwrap().remove(*i);
                }
            }
        }
        EditKind::EmptyArray => {
            nav(&mut v, &e.path).as_array_mut().unwrap().clear();
        }
        EditKind::DupLast => {
            let a = nav(&mut v, &e.path).as_array_mut().unwrap();
            let l = a.last().unwrap().clone();
            a.push(l);
        }
        EditKind::Truncate => {
            nav(&mut v, &e.path).as_array_mut().unwrap().pop();
        }
        EditKind::IdNil => *nav(&mut v, &e.path) = json!("00000000-0000-0000-0000-000000000000"),
        EditKind::IdFresh => *nav(&mut v, &e.path) = json!("ffffffff-eeee-dddd-cccc-bbbbbbbbbbbb"),
        EditKind::IdOther => {
            let node = nav(&mut v, &e.path);
            let cur = node.as_str().unwrap().to_string();
            let pos = ids.iter().position(|i| *i == cur).unwrap_or(0);
            let other = ids[(pos + 1) % ids.len()].clone();
            *node = json!(other);
        }
        EditKind::NumZero => {
            let node = nav(&mut v, &e.path);
            *node = if node.is_f64() { json!(0.0) } else { json!(0) };
        }
        EditKind::NameWide(k) => {
            let node = nav(&mut v, &e.path);
            *node = json!(format!("{}{}", if k == 1 { "a" } else { "" }, "ó".repeat(60)));
        }
        EditKind::NumTinyNeg => {
            let node = nav(&mut v, &e.path);
            *node = json!(-1.0e-6);
        }
        EditKind::NumNeg => {
            let node = nav(&mut v, &e.path);
            *node = if let Some(i) = node.as_i64() { json!(-i) } else { json!(-node.as_f64().unwrap()) };
        }
    }
    v
}

fn path_class(e: &Edit) -> String {
    // path without array indices
    let p: Vec<String> = e.path.iter().filter_map(|p| if let PE::K(k) = p { Some(k.clone()) } else { None }).collect();
    format!("{:?}@{}", e.kind, p.join("."))
}

// ---------------------------------------------------------------- bases

fn tiny_model() -> Model {
    // loads + schedules + two spaces + interior wall + window with setback + shade + bridge
    let mut m = simple_box(zone("D3"));
    m.meta.global_ventilation_l_s = Some(30.0);
    let mut s2 = space("S2", SpaceType::UNINHABITED, false, 2.5);
    s2.n_v = Some(1.0);
    m.spaces.push(s2);
    let wc = uid("wc");
    let mut ws = box_walls("S2", uid("S2"), wc, 10.0, 0.0, 0.0, 4.0, 8.0, 2.5);
    ws.remove(3);
    m.walls.extend(ws);
    m.walls[1].bounds = BoundaryType::INTERIOR;
    m.walls[1].next_to = Some(uid("S2"));
    m.windows[0].geometry.setback = 0.2;
    m.shades.push(Shade { id: uid("sh"), name: "sh".into(), geometry: geom(90.0, 0.0, Some([0.0, -5.0, 0.0]), rect(10.0, 6.0)), ..Default::default() });
    m.thermal_bridges.push(ThermalBridge { id: uid("tb"), name: "tb".into(), kind: ThermalBridgeKind::CORNER, l: 12.0, psi: 0.1, ..Default::default() });
    m.schedules.day.push(ScheduleDay { id: uid("d1"), name: "d1".into(), values: (0..24).map(|h| if h >= 8 && h < 18 { 1.0 } else { 0.0 }).collect(), ..Default::default() });
    m.schedules.day.push(ScheduleDay { id: uid("d2"), name: "d2".into(), values: vec![0.0; 24], ..Default::default() });
    m.schedules.week.push(ScheduleWeek { id: uid("w1"), name: "w1".into(), values: vec![(uid("d1"), 5), (uid("d2"), 2)], ..Default::default() });
    m.schedules.year.push(Schedule { id: uid("y1"), name: "y1".into(), values: vec![(uid("w1"), 365)], ..Default::default() });
    m.loads.push(SpaceLoads { id: uid("l1"), name: "l1".into(), area_per_person: 10.0, people_schedule: Some(uid("y1")), people_sensible: 7.0, people_latent: 4.0, equipment: 4.4, equipment_schedule: Some(uid("y1")), lighting: 4.4, lighting_schedule: Some(uid("y1")), ..Default::default() });
    m.thermostats.push(Thermostat { id: uid("t1"), name: "t1".into(), temp_max: Some(uid("y1")), temp_min: Some(uid("y1")), ..Default::default() });
    m.spaces[0].loads = Some(uid("l1"));
    m.spaces[0].thermostat = Some(uid("t1"));
    m.spaces[0].illuminance = Some(300.0);
    // a second occupied space with its own schedules (so that schedule lengths can disagree after an edit)
    let mut s3 = space("S3", SpaceType::CONDITIONED, true, 3.0);
    s3.loads = Some(uid("l2"));
    m.spaces.push(s3);
    m.walls.push(wall("S3_F", BoundaryType::GROUND, uid("wc"), uid("S3"), None, geom(180.0, 0.0, Some([0.0, 20.0, 0.0]), rect(4.0, 4.0))));
    m.walls.push(wall("S3_S", BoundaryType::EXTERIOR, uid("wc"), uid("S3"), None, geom(90.0, 0.0, Some([0.0, 16.0, 0.0]), rect(4.0, 3.0))));
    m.schedules.day.push(ScheduleDay { id: uid("d3"), name: "d3".into(), values: (0..24).map(|h| if h >= 20 { 0.5 } else { 0.0 }).collect(), ..Default::default() });
    m.schedules.week.push(ScheduleWeek { id: uid("w2"), name: "w2".into(), values: vec![(uid("d3"), 7)], ..Default::default() });
    m.schedules.year.push(Schedule { id: uid("y2"), name: "y2".into(), values: vec![(uid("w2"), 200), (uid("w1"), 165)], ..Default::default() });
    m.loads.push(SpaceLoads { id: uid("l2"), name: "l2".into(), area_per_person: 20.0, people_schedule: Some(uid("y2")), people_sensible: 7.0, people_latent: 4.0, equipment: 2.0, equipment_schedule: None, lighting: 3.0, lighting_schedule: Some(uid("y2")), ..Default::default() });
    m.overrides.windows.insert(uid("W1"), WinPropsOverrides { u_value: Some(1.5), f_shobst: None, ..Default::default() });
    m
}

fn micro_model() -> Model {
    let mut m = model_with_meta(meta(zone("B3")));
    m.spaces.push(space("S1", SpaceType::CONDITIONED, true, 3.0));
    m.cons.materials.push(mat_detailed("ins", 0.04));
    m.cons.wallcons.push(wallcons("wc", &[(uid("ins"), 0.1)]));
    m.walls.push(wall("F", BoundaryType::GROUND, uid("wc"), uid("S1"), None, geom(180.0, 0.0, Some([0.0, 4.0, 0.0]), rect(4.0, 4.0))));
    // (a second slab on the ground: a category of K with two members)
    m.walls.push(wall("F2", BoundaryType::GROUND, uid("wc"), uid("S1"), None, geom(180.0, 0.0, Some([4.0, 4.0, 0.0]), rect(2.0, 4.0))));
    m.walls.push(wall("S", BoundaryType::EXTERIOR, uid("wc"), uid("S1"), None, geom(90.0, 0.0, Some([0.0, 0.0, 0.0]), rect(4.0, 3.0))));
    m.windows.push(window("W", nil(), uid("S"), Some([1.0, 1.0]), 1.0, 1.0, 0.1));
    m
}

/// bases as JSON values (through the model's own serialiser)
pub fn bases(tier: Tier) -> Vec<(String, Value)> {
    let mut v: Vec<(String, Value)> = vec![];
    let tv = |m: &Model| serde_json::from_str::<Value>(&m.as_json().unwrap()).unwrap();
    v.push(("gen:tiny".into(), tv(&tiny_model())));
    v.push(("gen:micro".into(), tv(&micro_model())));
    let dir = format!("{}/bemodel/tests/data", repo_dir());
    let names: Vec<&str> = match tier {
        Tier::Quick => vec!["cubo.json"],
        Tier::Thorough => vec!["cubo.json", "cajazapatos_bombacaloracs.json", "caso_a.json", "cubo_gt_caldera_radiadores.json", "e4h_medianeras.json", "ejemplo_gt_aerotermia.json", "ejemploviv_unif.json"],
    };
    for n in names {
        let txt = std::fs::read_to_string(format!("{}/{}", dir, n)).unwrap();
        v.push((format!("shipped:{}", n), serde_json::from_str(&txt).unwrap()));
    }
    v
}

// ---------------------------------------------------------------- subject + verdict

fn sentinel() -> String {
    let m = load_model(&format!("{}/bemodel/tests/data/cubo.json", repo_dir()));
    let ind = m.energy_indicators();
    ind.as_json().unwrap_or_default()
}

/// run indicators on a JSON document; returns the worker verdict
pub fn subject(doc: &Value, sentinel_ref: &str) -> Value {
    let m: Model = match serde_json::from_value(doc.clone()) {
        Ok(m) => m,
        Err(_) => return json!({"verdict": "noload"}),
    };
    let r = catch(std::panic::AssertUnwindSafe(|| m.energy_indicators()));
    match r {
        Err(p) => {
            // does the failure affect later computations?
            let s = catch(std::panic::AssertUnwindSafe(sentinel));
            let sentinel_ok = matches!(&s, Ok(x) if x == sentinel_ref);
            json!({"verdict": "panic", "panic": p, "sentinel_ok": sentinel_ok, "sentinel_panic": s.err(), "exit_after": true})
        }
        Ok(ind) => {
            let closed = refm::closure_defects(&m).is_empty();
            let sane = closed && refm::sane_sizes(&m);
            let mut res = json!({"verdict": "ok", "closed": closed, "sane": sane});
            if sane {
                let nf = refm::non_finite_paths(&ind);
                let back = ind.as_json().ok().and_then(|j| serde_json::from_str::<energy::EnergyIndicators>(&j).ok()).is_some();
                res["non_finite"] = json!(nf);
                res["loads_back"] = json!(back);
            }
            res["sig"] = json!(hash64(&format!("{:?}/{:?}/{:?}", ind.K_data.K.to_bits(), ind.n50_data.n50.to_bits(), ind.area_ref.to_bits())));
            res
        }
    }
}

struct WorkerState {
    bases: Vec<(String, Value)>,
    edits: Vec<Vec<Edit>>,
    offsets: Vec<u64>,
    sentinel: String,
    // pairs (depth 2) on base 0/1
    pair_offsets: BTreeMap<usize, Vec<u64>>,
}

fn build_state(tier: Tier) -> WorkerState {
    let bases = bases(tier);
    let edits: Vec<Vec<Edit>> = bases.iter().map(|b| enumerate_edits(&b.1)).collect();
    let mut offsets = vec![0u64];
    for e in &edits {
        offsets.push(offsets.last().unwrap() + e.len() as u64);
    }
    WorkerState { bases, edits, offsets, sentinel: sentinel(), pair_offsets: BTreeMap::new() }
}

thread_local! { static STATE: std::cell::RefCell<Option<WorkerState>> = std::cell::RefCell::new(None); }

fn locate(offsets: &[u64], idx: u64) -> (usize, usize) {
    let b = offsets.partition_point(|o| *o <= idx) - 1;
    (b, (idx - offsets[b]) as usize)
}

/// spaces: c14a-<tier> single edits; c14b-<tier> edit pairs on generated bases; c14c-<tier> editor histories
pub fn worker(space: &str, idx: u64) -> Value {
    let tier = if space.ends_with("thorough") { Tier::Thorough } else { Tier::Quick };
    STATE.with(|st| {
        let mut st = st.borrow_mut();
        if st.is_none() {
            *st = Some(build_state(tier));
        }
        let st = st.as_mut().unwrap();
        if space.starts_with("c14a") {
            let (b, k) = locate(&st.offsets, idx);
            let doc = apply_edit(&st.bases[b].1, &st.edits[b][k]);
            subject(&doc, &st.sentinel)
        } else if space.starts_with("c14b") {
            // idx = base(0|1) * 1e9 + i * 1e4 + j  (i first edit, j second edit index)
            let b = (idx / 1_000_000_000) as usize;
            let i = ((idx % 1_000_000_000) / 10_000) as usize;
            let j = (idx % 10_000) as usize;
            let d1 = apply_edit(&st.bases[b].1, &st.edits[b][i]);
            let e2 = enumerate_edits(&d1);
            if j >= e2.len() {
                return json!({"verdict": "skip"});
            }
            let d2 = apply_edit(&d1, &e2[j]);
            let mut r = subject(&d2, &st.sentinel);
            r["second"] = json!(path_class(&e2[j]));
            r
        } else {
            let (m, _) = history_model(idx);
            let doc = serde_json::to_value(&m).unwrap();
            subject(&doc, &st.sentinel)
        }
    })
}

// ---------------------------------------------------------------- editor histories

pub const NOPS: u64 = 14;

fn decode_history(mut idx: u64) -> Vec<usize> {
    // sequences by length: len 0, 1, 2, ...
    let mut len = 0u32;
    loop {
        let cnt = NOPS.pow(len);
        if idx < cnt {
            break;
        }
        idx -= cnt;
        len += 1;
    }
    let mut s = vec![];
    for _ in 0..len {
        s.push((idx % NOPS) as usize);
        idx /= NOPS;
    }
    s
}

pub fn n_histories(maxlen: u32) -> u64 {
    (0..=maxlen).map(|l| NOPS.pow(l)).sum()
}

/// indices from KIT_BASE on: the same histories, started from a model that already holds a small library (material,
/// wall construction, glazing, frame, window construction) instead of from the empty model
pub const KIT_BASE: u64 = 1 << 40;

/// indices from DENSE_BASE on: a box with one window behind a brise-soleil of n identical slats whose centres coincide
/// on their longest axis at a value that is not a binary fraction (n around and above the leaf size of the ray-casting tree)
pub const DENSE_BASE: u64 = 1 << 41;
pub const DENSE_N: [usize; 4] = [29, 31, 40, 60];
pub const DENSE_CENTRES: [f32; 6] = [4.05, 0.1, 0.7, 1.0e-3, 123456.7, -2.3];

pub fn dense_model(k: u64) -> Model {
    let (n, cx) = (DENSE_N[(k as usize) % DENSE_N.len()], DENSE_CENTRES[(k as usize / DENSE_N.len()) % DENSE_CENTRES.len()]);
    let mut m = simple_box(zone("D3"));
    for i in 0..n {
        m.shades.push(Shade { id: uid(&format!("slat{i}")), name: format!("slat{i}"), geometry: geom(0.0, 0.0, Some([cx - 1.5, -1.0, 0.9 + i as f32 * 0.03]), rect(3.0, 0.15)), ..Default::default() });
    }
    m
}

pub fn history_model(idx: u64) -> (Model, Vec<usize>) {
    if idx >= DENSE_BASE {
        return (dense_model(idx - DENSE_BASE), vec![]);
    }
    let kit = idx >= KIT_BASE;
    let ops = decode_history(if kit { idx - KIT_BASE } else { idx });
    let mut m = model_with_meta(meta(zone("D3")));
    if kit {
        std_cons(&mut m);
        std_wincons(&mut m);
    }
    for (k, op) in ops.iter().enumerate() {
        let n = format!("{}", k);
        let last_space = m.spaces.last().map(|s| s.id);
        let last_wc = m.cons.wallcons.last().map(|s| s.id);
        match op {
            0 => m.spaces.push(space(&format!("sp{n}"), if k % 3 == 2 { SpaceType::UNINHABITED } else { SpaceType::CONDITIONED }, k % 4 != 3, 3.0)),
            1 => m.walls.push(wall(&format!("w{n}"), BoundaryType::EXTERIOR, last_wc.unwrap_or_default(), last_space.unwrap_or_default(), None, geom(90.0, 45.0 * k as f32, Some([k as f32, 0.0, 0.0]), rect(3.0, 3.0)))),
            2 => m.walls.push(wall(&format!("w{n}"), BoundaryType::EXTERIOR, uid("missing-cons"), uid("missing-space"), None, geom(0.0, 0.0, None, rect(3.0, 3.0)))),
            3 => m.walls.push(wall(&format!("w{n}"), BoundaryType::GROUND, last_wc.unwrap_or_default(), last_space.unwrap_or_default(), None, geom(180.0, 0.0, Some([0.0, 4.0, 0.0]), if k % 2 == 1 { rect(1.0, 1.2) } else { rect(4.0, 4.0) }))),
            4 => {
                let lw = m.walls.last().map(|w| w.id).unwrap_or_default();
                let lc = m.cons.wincons.last().map(|w| w.id).unwrap_or_default();
                m.windows.push(window(&format!("v{n}"), lc, lw, if k % 2 == 0 { Some([0.5, 0.5]) } else { None }, 1.0, 1.0, if k % 3 == 0 { 0.2 } else { 0.0 }));
            }
            5 => {
                let lm = m.cons.materials.last().map(|w| w.id).unwrap_or(uid("missing-mat"));
                m.cons.wallcons.push(wallcons(&format!("c{n}"), &[(lm, 0.1)]));
            }
            6 => m.cons.materials.push(if k % 2 == 0 { mat_detailed(&format!("m{n}"), 0.04) } else { mat_resistance(&format!("m{n}"), 0.5) }),
            7 => {
                let g = m.cons.glasses.last().map(|w| w.id).unwrap_or_default();
                let f = m.cons.frames.last().map(|w| w.id).unwrap_or_default();
                m.cons.wincons.push(wincons(&format!("k{n}"), g, f, 0.2, 0.0, None, 27.0));
            }
            8 => {
                m.cons.glasses.push(glass(&format!("g{n}"), 2.8, 0.7));
                m.cons.frames.push(frame(&format!("f{n}"), 3.2));
            }
            9 => m.thermal_bridges.push(ThermalBridge { id: uid(&format!("tb{n}")), name: n.clone(), kind: ThermalBridgeKind::CORNER, l: 1.0, psi: 0.1, ..Default::default() }),
            10 => m.shades.push(Shade { id: uid(&format!("sh{n}")), name: n.clone(), geometry: geom(90.0, 0.0, Some([0.0, -3.0, 0.0]), rect(4.0, 4.0)), ..Default::default() }),
            11 => {
                m.schedules.day.push(ScheduleDay { id: uid(&format!("d{n}")), name: n.clone(), values: vec![1.0; 24], ..Default::default() });
                m.schedules.week.push(ScheduleWeek { id: uid(&format!("wk{n}")), name: n.clone(), values: vec![(uid(&format!("d{n}")), 7)], ..Default::default() });
                m.schedules.year.push(Schedule { id: uid(&format!("y{n}")), name: n.clone(), values: vec![(uid(&format!("wk{n}")), 365)], ..Default::default() });
                m.loads.push(SpaceLoads { id: uid(&format!("l{n}")), name: n.clone(), area_per_person: 10.0, people_schedule: Some(uid(&format!("y{n}"))), people_sensible: 7.0, people_latent: 4.0, equipment: 4.0, equipment_schedule: Some(uid(&format!("y{n}"))), lighting: 4.0, lighting_schedule: None, ..Default::default() });
                if let Some(s) = m.spaces.last_mut() {
                    s.loads = Some(uid(&format!("l{n}")));
                }
            }
            12 => {
                m.meta.n50_test_ach = Some(3.0);
                m.meta.global_ventilation_l_s = Some(30.0);
            }
            _ => {
                // interior wall between the last two spaces
                let ns = m.spaces.len();
                let a = if ns >= 1 { m.spaces[ns - 1].id } else { Uuid::default() };
                let b = if ns >= 2 { Some(m.spaces[ns - 2].id) } else { Some(uid("missing-next")) };
                m.walls.push(wall(&format!("w{n}"), BoundaryType::INTERIOR, last_wc.unwrap_or_default(), a, b, geom(90.0, 90.0, Some([2.0, 0.0, 0.0]), rect(3.0, 3.0))));
            }
        }
    }
    (m, ops)
}

// ---------------------------------------------------------------- supervisor side

struct Tally {
    loads: u64,
    noload: u64,
    ok: u64,
    sane: u64,
    sigs: HashSet<u64>,
}

fn handle(ctx: &Ctx, tally: &Mutex<Tally>, descr: &dyn Fn() -> Value, class: &str, v: &Value) -> bool {
    ctx.eval(1);
    let verdict = v["verdict"].as_str().unwrap_or("?");
    let mut t = tally.lock().unwrap();
    match verdict {
        "noload" | "skip" => {
            t.noload += 1;
        }
        "ok" => {
            t.loads += 1;
            t.ok += 1;
            ctx.nontriv(1);
            if let Some(s) = v["sig"].as_u64() {
                t.sigs.insert(s);
            }
            if v["sane"].as_bool() == Some(true) {
                t.sane += 1;
                let nf = v["non_finite"].as_array().cloned().unwrap_or_default();
                if !nf.is_empty() {
                    let first = nf[0].as_str().unwrap_or("").split('=').next().unwrap_or("").to_string();
                    // strip ids in brackets
                    let first = first.split('[').next().unwrap_or("").to_string() + if first.contains('[') { "[..]" } else { "" } + first.rsplit(']').next().filter(|_| first.contains(']')).unwrap_or("");
                    drop(t);
                    ctx.violation(&format!("non-finite:{}", first), &format!("sane closed model reports non-finite numbers: {:?}", nf), json!({"case": descr(), "result": v}));
                    return true;
                }
                if v["loads_back"].as_bool() == Some(false) {
                    drop(t);
                    ctx.violation("indicators-json:does-not-load-back", "EnergyIndicators::as_json() of a sane model does not parse back", json!({"case": descr(), "result": v}));
                    return true;
                }
            }
        }
        "panic" => {
            t.loads += 1;
            ctx.nontriv(1);
            drop(t);
            let p = v["panic"].as_str().unwrap_or("");
            ctx.violation(&format!("panic:{}", panic_key(p)), &format!("energy_indicators() panicked ({}) after {}", p, class), json!({"case": descr(), "result": v}));
            if v["sentinel_ok"].as_bool() == Some(false) {
                ctx.violation(
                    &format!("poisoned-after-panic:{}", panic_key(p)),
                    &format!("after this failure, indicators of the shipped cubo model no longer compute/agree in the same process ({})", v["sentinel_panic"]),
                    json!({"case": descr(), "result": v}),
                );
            }
        }
        "timeout" | "oom-or-killed" | "abort" | "died" | "segv" => {
            t.loads += 1;
            drop(t);
            ctx.violation(&format!("{}:{}", verdict, class), &format!("energy_indicators() did not return ({}) after {}", verdict, class), json!({"case": descr(), "result": v}));
        }
        _ => {
            drop(t);
            ctx.machinery_error(format!("worker verdict {:?}", v));
        }
    }
    true
}

pub fn run(ctx: &Ctx) -> i32 {
    let tally = Mutex::new(Tally { loads: 0, noload: 0, ok: 0, sane: 0, sigs: HashSet::new() });
    let timeout = std::time::Duration::from_secs(20);
    // (a) single edits
    let st = build_state(ctx.tier);
    let total = *st.offsets.last().unwrap();
    let idxs: Vec<u64> = (0..total).collect();
    sup::supervise(&format!("c14a-{}", ctx.tier.name()), &idxs, timeout, &|idx, v| {
        let (b, k) = locate(&st.offsets, idx);
        let e = &st.edits[b][k];
        let class = path_class(e);
        handle(ctx, &tally, &|| json!({"part": "single-edit", "base": st.bases[b].0, "edit": format!("{:?}", e), "index": idx}), &class, &v)
    });
    ctx.note("single_edits", json!({"bases": st.bases.iter().map(|b| b.0.clone()).collect::<Vec<_>>(), "edits": total}));
    ctx.sample(json!({"part": "single-edit", "base": st.bases[0].0, "edit": format!("{:?}", st.edits[0][st.edits[0].len() / 2])}));
    // (b) edit pairs on the generated bases (micro: all pairs; tiny: thorough only)
    let mut pair_idx: Vec<u64> = vec![];
    let pair_bases: Vec<usize> = ctx.tier.pick(vec![1], vec![0, 1]);
    for &b in &pair_bases {
        for (i, e) in st.edits[b].iter().enumerate() {
            let d1 = apply_edit(&st.bases[b].1, e);
            let n2 = enumerate_edits(&d1).len();
            for j in 0..n2.min(9999) {
                pair_idx.push(b as u64 * 1_000_000_000 + i as u64 * 10_000 + j as u64);
            }
        }
    }
    sup::supervise(&format!("c14b-{}", ctx.tier.name()), &pair_idx, timeout, &|idx, v| {
        let b = (idx / 1_000_000_000) as usize;
        let i = ((idx % 1_000_000_000) / 10_000) as usize;
        let class = format!("{}+{}", path_class(&st.edits[b][i]), v["second"].as_str().unwrap_or("?"));
        handle(ctx, &tally, &|| json!({"part": "edit-pair", "base": st.bases[b].0, "first": format!("{:?}", st.edits[b][i]), "second_index": idx % 10_000, "index": idx}), &class, &v)
    });
    ctx.note("edit_pairs", json!({"pairs": pair_idx.len(), "bases": pair_bases.iter().map(|b| st.bases[*b].0.clone()).collect::<Vec<_>>()}));
    // (c) editor histories
    let maxlen = ctx.tier.pick(4, 5);
    let nh = n_histories(maxlen);
    let mut idxs: Vec<u64> = (0..nh).collect();
    let nh_kit = n_histories(maxlen - 1);
    idxs.extend((0..nh_kit).map(|i| KIT_BASE + i));
    let n_dense = (DENSE_N.len() * DENSE_CENTRES.len()) as u64;
    idxs.extend((0..n_dense).map(|i| DENSE_BASE + i));
    let states = Mutex::new(HashSet::<u64>::new());
    sup::supervise(&format!("c14c-{}", ctx.tier.name()), &idxs, timeout, &|idx, v| {
        let ops = if idx >= DENSE_BASE { vec![] } else { decode_history(if idx >= KIT_BASE { idx - KIT_BASE } else { idx }) };
        if let Some(s) = v["sig"].as_u64() {
            states.lock().unwrap().insert(s);
        }
        handle(ctx, &tally, &|| json!({"part": "editor-history", "ops": ops, "from_library_state": idx >= KIT_BASE && idx < DENSE_BASE, "dense_brise_soleil_model": idx >= DENSE_BASE, "index": idx, "model": serde_json::to_value(history_model(idx).0).unwrap()}), &format!("history{:?}", ops), &v)
    });
    ctx.note("editor_histories", json!({"max_len": maxlen, "histories": nh, "histories_from_library_state": nh_kit, "ops": NOPS, "distinct_result_signatures": states.lock().unwrap().len()}));
    ctx.sample(json!({"part": "editor-history", "ops": decode_history(nh / 2)}));
    let t = tally.lock().unwrap();
    ctx.note("tally", json!({"documents_that_load": t.loads, "do_not_load": t.noload, "returned": t.ok, "sane_closed_checked_for_finiteness": t.sane}));
    ctx.outcome_merge(&t.sigs);
    ctx.outcome(&"noload");
    ctx.finish(
        "fault_enumeration",
        &format!("(a) every single JSON-tree edit {{delete key, delete array item, empty/duplicate-last/truncate array, id -> nil / next other id of the document / fresh id, number -> 0, number -> -number, number -> -1e-6, name -> 60 two-byte letters (with and without a leading ASCII letter)}} of the bases (quick: generated tiny + micro models and cubo.json; thorough: + the other 6 shipped models); (b) every ordered pair of such edits on the micro model (thorough: also on the tiny model); (c) 24 box models behind a brise-soleil of 29/31/40/60 identical slats whose centres coincide at 4.05, 0.1, 0.7, 1e-3, 123456.7, -2.3; every editor history of length <= {} from the empty model, and of one step less from a model that already holds a small library of constructions, over {} operations (add space / wall / dangling wall / ground floor of 4 x 4 m or 1 x 1.2 m / window / wallcons / material / wincons / glass+frame / bridge / shade / loads+schedules / n50+ventilation / interior wall); each resulting document that loads as a Model is run through energy_indicators() in a supervised worker process (20 s watchdog, 4 GiB, panic-site capture, post-panic sentinel on cubo.json); closed models with positive sizes must report only finite numbers and JSON that loads back; non-trivial = document loads as a model", maxlen, NOPS),
        true,
        json!({}),
    )
}
