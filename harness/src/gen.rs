//! Model builders used by the enumerations (all deterministic; ids derive from names)

use bemodel::utils::uuid_from_str;
use bemodel::*;

pub fn uid(s: &str) -> Uuid {
    uuid_from_str(s)
}

pub fn nil() -> Uuid {
    Uuid::nil()
}

/// an empty model with the given general data (built by assignment, so that fields added to `Model` do not matter)
pub fn model_with_meta(meta: Meta) -> Model {
    let mut m = Model::default();
    m.meta = meta;
    m
}

pub fn rect(w: f32, h: f32) -> Polygon {
    vec![point![0.0, 0.0], point![w, 0.0], point![w, h], point![0.0, h]]
}

/// an outline of area w x h: 0 the rectangle, 1 a parallelogram (sheared by 0.3 h), 2 the rectangle away from the
/// origin of its plane and written closed (the first corner repeated at the end)
pub fn shaped(w: f32, h: f32, variant: usize) -> Polygon {
    match variant % 3 {
        0 => rect(w, h),
        1 => vec![point![0.0, 0.0], point![w, 0.0], point![w + 0.3 * h, h], point![0.3 * h, h]],
        _ => vec![point![2.0, 1.0], point![2.0 + w, 1.0], point![2.0 + w, 1.0 + h], point![2.0, 1.0 + h], point![2.0, 1.0]],
    }
}

pub fn geom(tilt: f32, azimuth: f32, pos: Option<[f32; 3]>, polygon: Polygon) -> WallGeom {
    WallGeom {
        tilt,
        azimuth,
        position: pos.map(|p| point![p[0], p[1], p[2]]),
        polygon, ..Default::default()
    }
}

pub fn space(name: &str, kind: SpaceType, inside: bool, height: f32) -> Space {
    Space {
        id: uid(name),
        name: name.to_string(),
        multiplier: 1.0,
        kind,
        inside_tenv: inside,
        height,
        z: 0.0,
        loads: None,
        thermostat: None,
        n_v: None,
        illuminance: None, ..Default::default()
    }
}

pub fn wall(name: &str, bounds: BoundaryType, cons: Uuid, space: Uuid, next_to: Option<Uuid>, g: WallGeom) -> Wall {
    Wall {
        id: uid(name),
        name: name.to_string(),
        bounds,
        cons,
        space,
        next_to,
        geometry: g, ..Default::default()
    }
}

pub fn window(name: &str, cons: Uuid, wall: Uuid, pos: Option<[f32; 2]>, w: f32, h: f32, setback: f32) -> Window {
    Window {
        id: uid(name),
        name: name.to_string(),
        cons,
        wall,
        geometry: WinGeom {
            position: pos.map(|p| point![p[0], p[1]]),
            height: h,
            width: w,
            setback,
        }, ..Default::default()
    }
}

pub fn mat_detailed(name: &str, conductivity: f32) -> Material {
    Material {
        id: uid(name),
        name: name.to_string(),
        properties: MatProps::Detailed {
            conductivity,
            density: 1000.0,
            specific_heat: 1000.0,
            vapour_diff: None,
        }, ..Default::default()
    }
}

pub fn mat_resistance(name: &str, resistance: f32) -> Material {
    Material {
        id: uid(name),
        name: name.to_string(),
        properties: MatProps::Resistance {
            resistance,
            vapour_diff: None,
        }, ..Default::default()
    }
}

pub fn wallcons(name: &str, layers: &[(Uuid, f32)]) -> WallCons {
    WallCons {
        id: uid(name),
        name: name.to_string(),
        layers: layers.iter().map(|(m, e)| Layer { material: *m, e: *e }).collect(),
        absorptance: 0.6, ..Default::default()
    }
}

pub fn glass(name: &str, u: f32, g: f32) -> Glass {
    Glass {
        id: uid(name),
        name: name.to_string(),
        u_value: u,
        g_gln: g, ..Default::default()
    }
}

pub fn frame(name: &str, u: f32) -> Frame {
    Frame {
        id: uid(name),
        name: name.to_string(),
        u_value: u,
        absorptivity: 0.6, ..Default::default()
    }
}

pub fn wincons(name: &str, glass: Uuid, frame: Uuid, f_f: f32, delta_u: f32, g_glshwi: Option<f32>, c_100: f32) -> WinCons {
    WinCons {
        id: uid(name),
        name: name.to_string(),
        glass,
        frame,
        f_f,
        delta_u,
        g_glshwi,
        c_100, ..Default::default()
    }
}

pub fn meta(zone: climatedata::ClimateZone) -> Meta {
    Meta {
        name: "gen".into(),
        is_new_building: true,
        is_dwelling: true,
        num_dwellings: 1,
        climate: zone,
        global_ventilation_l_s: None,
        n50_test_ach: None,
        d_perim_insulation: 0.0,
        rn_perim_insulation: 0.0, ..Default::default()
    }
}

/// Standard wall construction library: material "ins" (0.04), "conc" (2.3), "rair" (R=0.18); cons "wc" = 0.1 ins + 0.2 conc
pub fn std_cons(m: &mut Model) -> Uuid {
    m.cons.materials.push(mat_detailed("ins", 0.04));
    m.cons.materials.push(mat_detailed("conc", 2.3));
    m.cons.materials.push(mat_resistance("rair", 0.18));
    m.cons
        .wallcons
        .push(wallcons("wc", &[(uid("ins"), 0.1), (uid("conc"), 0.2)]));
    uid("wc")
}

pub fn std_wincons(m: &mut Model) -> Uuid {
    m.cons.glasses.push(glass("gl", 2.8, 0.7));
    m.cons.frames.push(frame("fr", 3.2));
    m.cons
        .wincons
        .push(wincons("winc", uid("gl"), uid("fr"), 0.2, 0.0, None, 27.0));
    uid("winc")
}

/// Axis-aligned box space [x0,x0+w]x[y0,y0+d]x[z0,z0+h]; six elements named <p>_S,_E,_N,_W,_R (roof),_F (floor)
/// returns the walls (caller may change bounds / next_to)
pub fn box_walls(prefix: &str, space: Uuid, cons: Uuid, x0: f32, y0: f32, z0: f32, w: f32, d: f32, h: f32) -> Vec<Wall> {
    use BoundaryType::*;
    vec![
        wall(&format!("{prefix}_S"), EXTERIOR, cons, space, None, geom(90.0, 0.0, Some([x0, y0, z0]), rect(w, h))),
        wall(&format!("{prefix}_E"), EXTERIOR, cons, space, None, geom(90.0, 90.0, Some([x0 + w, y0, z0]), rect(d, h))),
        wall(&format!("{prefix}_N"), EXTERIOR, cons, space, None, geom(90.0, 180.0, Some([x0 + w, y0 + d, z0]), rect(w, h))),
        wall(&format!("{prefix}_W"), EXTERIOR, cons, space, None, geom(90.0, -90.0, Some([x0, y0 + d, z0]), rect(d, h))),
        wall(&format!("{prefix}_R"), EXTERIOR, cons, space, None, geom(0.0, 0.0, Some([x0, y0, z0 + h]), rect(w, d))),
        wall(&format!("{prefix}_F"), GROUND, cons, space, None, geom(180.0, 0.0, Some([x0, y0 + d, z0]), rect(w, d))),
    ]
}

/// One conditioned box 10x8x3 with a 2x1.5 window on the south wall, everything resolvable
pub fn simple_box(zone: climatedata::ClimateZone) -> Model {
    let mut m = model_with_meta(meta(zone));
    let wc = std_cons(&mut m);
    let winc = std_wincons(&mut m);
    let s = space("S1", SpaceType::CONDITIONED, true, 3.0);
    let sid = s.id;
    m.spaces.push(s);
    m.walls = box_walls("S1", sid, wc, 0.0, 0.0, 0.0, 10.0, 8.0, 3.0);
    m.windows
        .push(window("W1", winc, uid("S1_S"), Some([4.0, 1.0]), 2.0, 1.5, 0.0));
    m
}

pub fn load_model(path: &str) -> Model {
    let txt = std::fs::read_to_string(path).unwrap_or_else(|e| panic!("read {}: {}", path, e));
    Model::from_json(&txt).unwrap_or_else(|e| panic!("parse {}: {}", path, e))
}

pub fn shipped_models() -> Vec<(String, Model)> {
    let dir = format!("{}/bemodel/tests/data", crate::common::repo_dir());
    let mut v = vec![];
    let mut names: Vec<_> = std::fs::read_dir(&dir)
        .unwrap()
        .filter_map(|e| e.ok())
        .map(|e| e.file_name().to_string_lossy().to_string())
        .filter(|n| n.ends_with(".json"))
        .collect();
    names.sort();
    for n in names {
        let m = load_model(&format!("{}/{}", dir, n));
        v.push((n, m));
    }
    v
}

pub const ALL_ZONES: [&str; 32] = [
    "A1c", "A2c", "A3c", "A4c", "Alfa1c", "Alfa2c", "Alfa3c", "Alfa4c", "B1c", "B2c", "B3c", "B4c", "C1c", "C2c", "C3c", "C4c", "D1c", "D2c", "D3c", "E1c", "A3", "A4", "B3", "B4", "C1", "C2",
    "C3", "C4", "D1", "D2", "D3", "E1",
];

pub fn zone(name: &str) -> climatedata::ClimateZone {
    serde_json::from_value(serde_json::Value::String(name.to_string())).unwrap()
}
