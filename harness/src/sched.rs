//! E4 — controlled scheduler over the hooked lock sites (bemodel::verif::ACQUIRE): real OS threads gated by a
//! baton, shadow locks, deadlock detection, stateless DFS with iterative preemption bounding, schedule replay.

use std::collections::HashMap;
use std::sync::{Condvar, Mutex};

#[derive(Clone, Debug, PartialEq)]
enum Want {
    Start,
    Lock(&'static str),
}

#[derive(Clone, Debug, PartialEq)]
enum TState {
    NotStarted,
    Parked(Want),
    Running,
    Done,
}

#[derive(Clone, Debug)]
pub struct PointRec {
    pub enabled: Vec<usize>,
    pub chosen: usize, // index into enabled
    pub running_still_enabled: bool,
    pub what: String,
}

struct Sched {
    state: Vec<TState>,
    lock_owner: HashMap<&'static str, usize>,
    current: Option<usize>,
    last_running: Option<usize>,
    prefix: Vec<usize>,
    points: Vec<PointRec>,
    active: bool,
    fatal: Option<String>,
}

static SCHED: Mutex<Option<Sched>> = Mutex::new(None);
static CV: Condvar = Condvar::new();

thread_local! { static TID: std::cell::Cell<Option<usize>> = std::cell::Cell::new(None); }

struct Token {
    id: &'static str,
    tid: usize,
}

impl Drop for Token {
    fn drop(&mut self) {
        let mut g = SCHED.lock().unwrap_or_else(|e| e.into_inner());
        if let Some(s) = g.as_mut() {
            if s.lock_owner.get(self.id) == Some(&self.tid) {
                s.lock_owner.remove(self.id);
            }
        }
    }
}

thread_local! { static BUSY: std::cell::Cell<u8> = std::cell::Cell::new(0); }
/// number of lookups that found their table held by the foreign client
pub static BUSY_LOOKUPS: std::sync::atomic::AtomicU64 = std::sync::atomic::AtomicU64::new(0);
pub const TABLES: [&str; 3] = ["CLIMATEMETADATA", "JULYRADDATA", "MONTHLYRADDATA"];
const BUSY_HOLD_MS: u64 = 25;

/// Environment answer "the table is in use by another client of the public static": run `f` on this thread with,
/// for every table in the bit mask, a foreign thread holding the real lock at the moment of each lookup (it has the
/// lock before the hook returns and gives it back 25 ms later). Blocking code waits and sees the same table.
pub fn with_busy_tables<R>(mask: u8, f: impl FnOnce() -> R) -> R {
    BUSY.with(|b| b.set(mask));
    let r = f();
    BUSY.with(|b| b.set(0));
    r
}

fn hold_table(id: &'static str) {
    use bemodel::climatedata::{CLIMATEMETADATA, JULYRADDATA, MONTHLYRADDATA};
    let (tx, rx) = std::sync::mpsc::channel::<()>();
    std::thread::spawn(move || {
        let hold = std::time::Duration::from_millis(BUSY_HOLD_MS);
        match id {
            "CLIMATEMETADATA" => {
                let _g = CLIMATEMETADATA.lock();
                let _ = tx.send(());
                std::thread::sleep(hold);
            }
            "JULYRADDATA" => {
                let _g = JULYRADDATA.lock();
                let _ = tx.send(());
                std::thread::sleep(hold);
            }
            _ => {
                let _g = MONTHLYRADDATA.lock();
                let _ = tx.send(());
                std::thread::sleep(hold);
            }
        }
    });
    let _ = rx.recv();
    BUSY_LOOKUPS.fetch_add(1, std::sync::atomic::Ordering::Relaxed);
}

fn hook(id: &'static str) -> bemodel::verif::Token {
    let mask = BUSY.with(|b| b.get());
    if mask != 0 {
        if let Some(i) = TABLES.iter().position(|t| *t == id) {
            if mask & (1 << i) != 0 {
                hold_table(id);
            }
        }
        return Box::new(());
    }
    match TID.with(|t| t.get()) {
        None => Box::new(()), // not a scheduled thread (reference computations on the main thread)
        Some(tid) => {
            park(tid, Want::Lock(id));
            Box::new(Token { id, tid })
        }
    }
}

pub fn install() {
    let _ = bemodel::verif::ACQUIRE.set(hook);
}

/// with the scheduler lock held and no thread running: pick the next thread
fn schedule(s: &mut Sched) {
    if s.state.iter().any(|t| *t == TState::NotStarted || *t == TState::Running) {
        return;
    }
    let mut enabled: Vec<usize> = vec![];
    for (tid, t) in s.state.iter().enumerate() {
        match t {
            TState::Parked(Want::Start) => enabled.push(tid),
            TState::Parked(Want::Lock(id)) => {
                if !s.lock_owner.contains_key(id) {
                    enabled.push(tid)
                }
            }
            _ => {}
        }
    }
    if enabled.is_empty() {
        if s.state.iter().all(|t| *t == TState::Done) {
            s.active = false;
            CV.notify_all();
            return;
        }
        // deadlock: threads are parked on shadow locks that are all held
        let desc: Vec<String> = s.state.iter().enumerate().map(|(i, t)| format!("t{}:{:?}", i, t)).collect();
        s.fatal = Some(format!("DEADLOCK owners={:?} threads={:?}", s.lock_owner, desc));
        s.active = false;
        CV.notify_all();
        return;
    }
    // canonical order: the thread that was running first (if still enabled), then ascending ids
    let mut running_still_enabled = false;
    if let Some(r) = s.last_running {
        if let Some(p) = enabled.iter().position(|e| *e == r) {
            enabled.remove(p);
            enabled.insert(0, r);
            running_still_enabled = true;
        }
    }
    let i = s.points.len();
    let choice = if i < s.prefix.len() { s.prefix[i] } else { 0 };
    if choice >= enabled.len() {
        s.fatal = Some(format!("REPLAY-DIVERGENCE at point {}: choice {} but only {} enabled", i, choice, enabled.len()));
        s.active = false;
        CV.notify_all();
        return;
    }
    let chosen = enabled[choice];
    let what = format!("{:?}", s.state[chosen]);
    if let TState::Parked(Want::Lock(id)) = &s.state[chosen] {
        s.lock_owner.insert(id, chosen);
    }
    s.points.push(PointRec { enabled, chosen: choice, running_still_enabled, what });
    s.state[chosen] = TState::Running;
    s.current = Some(chosen);
    CV.notify_all();
}

fn park(tid: usize, want: Want) {
    let mut g = SCHED.lock().unwrap_or_else(|e| e.into_inner());
    {
        let s = match g.as_mut() {
            Some(s) if s.active => s,
            _ => return,
        };
        s.state[tid] = TState::Parked(want);
        if s.current == Some(tid) {
            s.current = None;
            s.last_running = Some(tid);
        }
        schedule(s);
    }
    loop {
        match g.as_ref() {
            Some(s) if s.active => {
                if s.current == Some(tid) {
                    return;
                }
            }
            _ => return, // aborted (deadlock / divergence): free run so that the process can report and exit
        }
        g = CV.wait(g).unwrap_or_else(|e| e.into_inner());
    }
}

fn finish(tid: usize) {
    let mut g = SCHED.lock().unwrap_or_else(|e| e.into_inner());
    if let Some(s) = g.as_mut() {
        if !s.active {
            return;
        }
        s.state[tid] = TState::Done;
        if s.current == Some(tid) {
            s.current = None;
            s.last_running = Some(tid);
        }
        schedule(s);
    }
}

pub struct Execution {
    pub points: Vec<PointRec>,
    pub observations: Vec<Vec<u64>>,
    pub fatal: Option<String>,
}

/// run one execution: `bodies[t]` is the list of operations of thread t; each operation returns an observation hash
pub fn run(prefix: &[usize], bodies: &[Vec<std::sync::Arc<dyn Fn() -> u64 + Send + Sync>>]) -> Execution {
    let n = bodies.len();
    {
        let mut g = SCHED.lock().unwrap_or_else(|e| e.into_inner());
        *g = Some(Sched { state: vec![TState::NotStarted; n], lock_owner: HashMap::new(), current: None, last_running: None, prefix: prefix.to_vec(), points: vec![], active: true, fatal: None });
    }
    let mut handles = vec![];
    for (tid, ops) in bodies.iter().enumerate() {
        let ops = ops.clone();
        handles.push(std::thread::spawn(move || {
            TID.with(|t| t.set(Some(tid)));
            park(tid, Want::Start);
            let mut obs = vec![];
            for op in ops {
                let r = std::panic::catch_unwind(std::panic::AssertUnwindSafe(|| op()));
                obs.push(r.unwrap_or(u64::MAX)); // u64::MAX = panic
            }
            finish(tid);
            obs
        }));
    }
    // watchdog: an execution takes milliseconds; a thread blocked on an unhooked primitive would hang here
    let t0 = std::time::Instant::now();
    loop {
        {
            let g = SCHED.lock().unwrap_or_else(|e| e.into_inner());
            let s = g.as_ref().unwrap();
            if !s.active {
                break;
            }
        }
        if t0.elapsed().as_secs() > 60 {
            let mut g = SCHED.lock().unwrap_or_else(|e| e.into_inner());
            let s = g.as_mut().unwrap();
            s.fatal = Some(format!("WATCHDOG: execution did not finish in 60 s (blocked on an unhooked primitive?) after choices {:?}", s.points.iter().map(|p| p.chosen).collect::<Vec<_>>()));
            s.active = false;
            CV.notify_all();
            break;
        }
        std::thread::sleep(std::time::Duration::from_micros(200));
    }
    let (points, fatal) = {
        let g = SCHED.lock().unwrap_or_else(|e| e.into_inner());
        let s = g.as_ref().unwrap();
        (s.points.clone(), s.fatal.clone())
    };
    if fatal.is_some() {
        // threads may be stuck for real: do not join
        return Execution { points, observations: vec![], fatal };
    }
    let observations = handles.into_iter().map(|h| h.join().unwrap_or_default()).collect();
    Execution { points, observations, fatal: None }
}

pub struct Exploration {
    pub executions: u64,
    pub max_points: usize,
    pub distinct_schedules: std::collections::HashSet<Vec<usize>>,
    pub failures: Vec<(Vec<usize>, String)>,
}

fn preemptions_before(points: &[PointRec], i: usize) -> usize {
    points[..i].iter().filter(|p| p.running_still_enabled && p.chosen != 0).count()
}

/// DFS over choice sequences with a preemption bound; `check` validates the observations of one execution
pub fn explore(bodies: &[Vec<std::sync::Arc<dyn Fn() -> u64 + Send + Sync>>], bound: usize, check: &dyn Fn(&Execution) -> Option<String>, cap: u64) -> Exploration {
    let mut ex = Exploration { executions: 0, max_points: 0, distinct_schedules: Default::default(), failures: vec![] };
    let mut stack: Vec<Vec<usize>> = vec![vec![]];
    while let Some(prefix) = stack.pop() {
        if ex.executions >= cap {
            ex.failures.push((prefix, "CAP".into()));
            break;
        }
        let x = run(&prefix, bodies);
        ex.executions += 1;
        ex.max_points = ex.max_points.max(x.points.len());
        let choices: Vec<usize> = x.points.iter().map(|p| p.chosen).collect();
        ex.distinct_schedules.insert(choices.clone());
        if let Some(f) = &x.fatal {
            ex.failures.push((choices.clone(), f.clone()));
            if f.starts_with("DEADLOCK") || f.starts_with("WATCHDOG") || f.starts_with("REPLAY") {
                return ex; // threads may be stuck: the caller reports and exits the process
            }
        } else if let Some(msg) = check(&x) {
            ex.failures.push((choices.clone(), msg));
        }
        for i in (prefix.len()..x.points.len()).rev() {
            let p = &x.points[i];
            let base = preemptions_before(&x.points, i);
            for alt in 1..p.enabled.len() {
                let cost = base + if p.running_still_enabled { 1 } else { 0 };
                if cost > bound {
                    continue;
                }
                let mut np = choices[..i].to_vec();
                np.push(alt);
                stack.push(np);
            }
        }
    }
    ex
}
