//! C20 — solar geometry, radiation identities, embedded climate tables (E1 grids + table sweeps)

use crate::common::*;
use crate::gen::*;
use nalgebra::point;
use bemodel::climatedata::{CLIMATEMETADATA, JULYRADDATA, MONTHLYRADDATA};
use bemodel::*;
use climate::solar;
use climate::{Location, SolarRadiation};
use serde_json::json;
use std::collections::HashSet;

const MDAYS: [u32; 12] = [31, 28, 31, 30, 31, 30, 31, 31, 30, 31, 30, 31];

fn sun_vec(lat: f64, decl: f64, omega: f64) -> [f64; 3] {
    // (E, N, U); omega: code convention (positive before noon)
    let (p, d, w) = (lat.to_radians(), decl.to_radians(), omega.to_radians());
    [d.cos() * w.sin(), d.sin() * p.cos() - d.cos() * p.sin() * w.cos(), d.sin() * p.sin() + d.cos() * p.cos() * w.cos()]
}

fn angdiff(a: f64, b: f64) -> f64 {
    let mut d = (a - b).rem_euclid(360.0);
    if d > 180.0 {
        d -= 360.0;
    }
    d.abs()
}

pub fn run(ctx: &Ctx) -> i32 {
    let mut n_eval = 0u64;
    let mut outcomes: HashSet<u64> = HashSet::new();
    // ---------------- (1) calendar
    let mut cum = 0u32;
    for (mi, md) in MDAYS.iter().enumerate() {
        for d in 1..=*md {
            n_eval += 1;
            let exp = cum + d;
            match catch(|| climate::nday_from_md(mi as u32 + 1, d)) {
                Ok(g) => {
                    if g != exp {
                        ctx.violation("nday_from_md:wrong-day", &format!("nday_from_md({},{}) = {} expected {}", mi + 1, d, g, exp), json!({"month": mi + 1, "day": d}));
                    }
                    outcomes.insert(g as u64);
                }
                Err(p) => ctx.violation(&format!("nday_from_md:panic:day-{}", if d == 31 { "31" } else { "other" }), &format!("nday_from_md({},{}) panicked: {}", mi + 1, d, p), json!({"month": mi + 1, "day": d})),
            }
            // the two other entry points agree
            if let Ok(g2) = catch(|| climate::nday_from_ymd(2001, mi as u32 + 1, d)) {
                if g2 != exp {
                    ctx.violation("nday_from_ymd:wrong-day", &format!("nday_from_ymd(2001,{},{}) = {} expected {}", mi + 1, d, g2, exp), json!({"month": mi + 1, "day": d}));
                }
            }
        }
        cum += md;
    }
    ctx.sample(json!({"part": "calendar", "month": 3, "day": 31, "expected_nday": 90}));
    // ---------------- (2) sun position grid
    let step: f64 = ctx.tier.pick(1.0, 0.5);
    let lats: Vec<f64> = { let mut v = vec![]; let mut x = -66.0; while x <= 66.0 + 1e-9 { v.push(x); x += step; } v };
    let decls: Vec<f64> = { let mut v = vec![]; let mut x = -23.45; while x <= 23.45 + 1e-9 { v.push(x); x += step; } v.push(23.45); v };
    let omegas: Vec<f64> = { let mut v = vec![]; let mut x = -180.0 + step; while x < 180.0 - 1e-9 { v.push(x); x += step; } v };
    let g = Grid::new(&[("lat", lats.len()), ("decl", decls.len())]);
    #[derive(Default)]
    struct A {
        n: u64,
        above: u64,
        out: HashSet<u64>,
    }
    let accs = par_fold(g.size(), |i, a: &mut A| {
        let t = g.unrank(i);
        let (lat, decl) = (lats[t[0]], decls[t[1]]);
        for &om in &omegas {
            a.n += 1;
            let s = sun_vec(lat, decl, om);
            let alt = s[2].asin().to_degrees();
            let loc = Location { latitude: lat as f32, longitude: 0.0, tz: 0 };
            let sp = solar::sun_position(decl as f32, om as f32, loc);
            if alt >= 1.0 && alt <= 89.0 {
                a.above += 1;
                let az = s[0].atan2(-s[1]).to_degrees();
                if (sp.altitude as f64 - alt).abs() > 0.05 {
                    ctx.violation("sun_position:altitude", &format!("altitude {} expected {:.3} (lat {}, decl {}, hour angle {})", sp.altitude, alt, lat, decl, om), json!({"lat": lat, "decl": decl, "hourangle": om}));
                }
                // azimuth ill-conditioned near the zenith: tolerance scaled by 1/cos(alt)
                let tol = 0.05 / alt.to_radians().cos().max(0.05);
                if angdiff(sp.azimuth as f64, az) > tol {
                    let cls = if om.abs() < 1e-9 { "noon" } else if om > 0.0 { "morning" } else { "afternoon" };
                    ctx.violation(&format!("sun_position:azimuth:{}", cls), &format!("azimuth {} expected {:.3} (S=0, E+) (lat {}, decl {}, hour angle {})", sp.azimuth, az, lat, decl, om), json!({"lat": lat, "decl": decl, "hourangle": om}));
                }
                if a.n % 97 == 0 {
                    a.out.insert(((sp.altitude * 10.0) as i64 as u64) << 16 | ((sp.azimuth * 10.0) as i64 as u64 & 0xffff));
                }
            } else if alt < -1.0 && sp.altitude != 0.0 {
                ctx.violation("sun_position:altitude-below-horizon", &format!("altitude {} with the sun {:.2} degrees below the horizon", sp.altitude, -alt), json!({"lat": lat, "decl": decl, "hourangle": om}));
            }
        }
    });
    let mut above = 0;
    for a in &accs {
        n_eval += a.n;
        above += a.above;
        outcomes.extend(a.out.iter());
    }
    ctx.note("sun_position_grid", json!({"step_deg": step, "points": lats.len() * decls.len() * omegas.len(), "sun_between_1_and_89_deg": above}));
    ctx.sample(json!({"part": "sun-position", "lat": 40.0, "decl": 23.45, "hourangle": 45.0}));
    // ---------------- (3) incidence angle / normal / ray_dir_to_sun
    let tilts: Vec<f32> = (0..=12).map(|k| k as f32 * 15.0).collect();
    let sazs: Vec<f32> = (-12..=12).map(|k| k as f32 * 15.0).collect();
    let slat = [-66.0f64, -30.0, 0.0, 28.3, 40.7, 66.0];
    let sdec = [-23.45f64, -10.0, 0.0, 10.0, 23.45];
    let som: Vec<f64> = (-23..=23).map(|k| k as f64 * 7.5).collect();
    let g3 = Grid::new(&[("tilt", tilts.len()), ("az", sazs.len())]);
    let accs3 = par_fold(g3.size(), |i, a: &mut A| {
        let t = g3.unrank(i);
        let (tilt, saz) = (tilts[t[0]], sazs[t[1]]);
        let wg = geom(tilt, saz, Some([0.0, 0.0, 0.0]), rect(1.0, 1.0));
        let n = HasSurface::normal(&wg);
        // normal convention: (sin t sin a, -sin t cos a, cos t)
        let (tr, ar) = ((tilt as f64).to_radians(), (saz as f64).to_radians());
        let nref = [tr.sin() * ar.sin(), -tr.sin() * ar.cos(), tr.cos()];
        if (n.x as f64 - nref[0]).abs() > 1e-5 || (n.y as f64 - nref[1]).abs() > 1e-5 || (n.z as f64 - nref[2]).abs() > 1e-5 {
            ctx.violation("WallGeom::normal:convention", &format!("normal {:?} expected {:?} for tilt {} azimuth {}", n, nref, tilt, saz), json!({"tilt": tilt, "azimuth": saz}));
        }
        // the outward normal belongs to the plane and the listing sense, not to where the outline lies in the plane or
        // at which corner its listing starts: a 5 x 3 counter-clockwise rectangle at five offsets x four starting corners
        for (dx, dy) in [(0.0f32, 0.0f32), (10.0, 10.0), (-11.0, 0.0), (-7.0, -9.0), (3.0, -20.0)] {
            for start in 0..4 {
                let mut poly = vec![point![dx, dy], point![dx + 5.0, dy], point![dx + 5.0, dy + 3.0], point![dx, dy + 3.0]];
                poly.rotate_left(start);
                let n2 = HasSurface::normal(&geom(tilt, saz, Some([1.0, 2.0, 3.0]), poly));
                a.n += 1;
                if (n2.x as f64 - nref[0]).abs() > 1e-5 || (n2.y as f64 - nref[1]).abs() > 1e-5 || (n2.z as f64 - nref[2]).abs() > 1e-5 {
                    ctx.violation("WallGeom::normal:depends-on-outline-placement", &format!("normal {:?} expected {:?} for tilt {} azimuth {} with the outline at ({}, {}) listed from corner {}", n2, nref, tilt, saz, dx, dy, start), json!({"tilt": tilt, "azimuth": saz, "outline_offset": [dx, dy], "first_corner": start}));
                }
            }
        }
        for lat in slat {
            for dec in sdec {
                for &om in &som {
                    a.n += 1;
                    let s = sun_vec(lat, dec, om);
                    let cosi = (s[0] * nref[0] + s[1] * nref[1] + s[2] * nref[2]).clamp(-1.0, 1.0);
                    let got = solar::angle_sol_surf(dec as f32, om as f32, lat as f32, tilt, saz) as f64;
                    let exp = cosi.acos().to_degrees();
                    let bad = if exp < 2.0 || exp > 178.0 { (got.to_radians().cos() - cosi).abs() > 3e-4 } else { (got - exp).abs() > 0.05 };
                    if bad {
                        ctx.violation("angle_sol_surf", &format!("incidence {} expected {:.3} (lat {}, decl {}, hour angle {}, tilt {}, azimuth {})", got, exp, lat, dec, om, tilt, saz), json!({"lat": lat, "decl": dec, "hourangle": om, "tilt": tilt, "azimuth": saz}));
                    }
                    // the crate-level entry point reports the same incidence angle
                    let got2 = climate::sunsurface_angles(dec as f32, om as f32, climate::Location { latitude: lat as f32, longitude: 0.0, tz: 0 }, tilt, saz).angle as f64;
                    let bad2 = if exp < 2.0 || exp > 178.0 { (got2.to_radians().cos() - cosi).abs() > 3e-4 } else { (got2 - exp).abs() > 0.05 };
                    if bad2 {
                        ctx.violation("sunsurface_angles.angle", &format!("incidence {} expected {:.3} (lat {}, decl {}, hour angle {}, tilt {}, azimuth {})", got2, exp, lat, dec, om, tilt, saz), json!({"lat": lat, "decl": dec, "hourangle": om, "tilt": tilt, "azimuth": saz}));
                    }
                    if i == 0 {
                        // ray_dir_to_sun from the sun's azimuth/altitude gives the same vector
                        let alt = s[2].asin().to_degrees();
                        if alt.abs() < 89.0 {
                            let az = s[0].atan2(-s[1]).to_degrees();
                            let r = energy::ray_dir_to_sun(az as f32, alt as f32);
                            if (r.x as f64 - s[0]).abs() > 1e-4 || (r.y as f64 - s[1]).abs() > 1e-4 || (r.z as f64 - s[2]).abs() > 1e-4 {
                                ctx.violation("ray_dir_to_sun", &format!("ray_dir_to_sun({:.2},{:.2}) = {:?} expected {:?}", az, alt, r, s), json!({"azimuth": az, "altitude": alt}));
                            }
                        }
                    }
                }
            }
        }
        a.out.insert(hash64(&(n.x.to_bits(), n.y.to_bits(), n.z.to_bits())));
    });
    for a in &accs3 {
        n_eval += a.n;
        outcomes.extend(a.out.iter());
    }
    ctx.sample(json!({"part": "incidence", "lat": 40.7, "decl": 10.0, "hourangle": 30.0, "tilt": 45, "azimuth": -60}));
    // ---------------- (4) radiation identities on the shipped weather file
    let mettxt = std::fs::read_to_string(format!("{}/climate/src/zonaD3.met", repo_dir())).unwrap();
    let met = climate::parsemet(&mettxt).expect("zonaD3.met");
    let lat = met.meta.latitude;
    let orients: Vec<(f32, f32)> = climate::ORIENTATIONS.iter().map(|o| (o.0, o.1)).collect();
    let mut n_conserv = 0u64;
    for h in &met.data {
        let nday = climate::nday_from_ymd(2001, h.month, h.day);
        let gin = (h.rdirhor + h.rdifhor) as f64;
        let alt = 90.0 - h.zenith;
        let hor = climate::radiation_for_surface(nday, h.hour, SolarRadiation { dir: h.rdirhor, dif: h.rdifhor }, lat, 0.0, 0.0, 0.2);
        let down = climate::radiation_for_surface(nday, h.hour, SolarRadiation { dir: h.rdirhor, dif: h.rdifhor }, lat, 180.0, 0.0, 0.2);
        n_eval += 2;
        let case = || json!({"part": "radiation", "month": h.month, "day": h.day, "hour": h.hour, "dir_hor": h.rdirhor, "dif_hor": h.rdifhor, "zenith": h.zenith});
        // the model's own solar altitude for that hour (solar time = file hour)
        let decl = solar::declination_from_nday(nday);
        let om = solar::hourangle_from_tsol(h.hour);
        let alt_model = solar::altitude_sol_from_data(decl, om, lat);
        if alt_model >= 6.0 && alt >= 6.0 && gin > 0.0 {
            n_conserv += 1;
            let gout = (hor.dir + hor.dif) as f64;
            if (gout - gin).abs() > 0.001 * gin + 0.05 {
                ctx.violation("radiation:horizontal-not-conserved", &format!("horizontal surface receives {:.3} W/m2 for {:.3} W/m2 global horizontal", gout, gin), case());
            }
        }
        let dout = (down.dir + down.dif) as f64;
        if (dout - 0.2 * gin).abs() > 0.001 * gin + 0.05 && alt_model >= 1.0 {
            ctx.violation("radiation:downward-not-albedo", &format!("downward surface receives {:.3} W/m2, albedo x global = {:.3}", dout, 0.2 * gin), case());
        }
        for (t, a) in &orients {
            let r = climate::radiation_for_surface(nday, h.hour, SolarRadiation { dir: h.rdirhor, dif: h.rdifhor }, lat, *t, *a, 0.2);
            n_eval += 1;
            if r.dir < 0.0 || !r.dir.is_finite() || !r.dif.is_finite() {
                ctx.violation("radiation:negative-or-nonfinite-beam", &format!("beam {} diffuse {} on tilt {} azimuth {}", r.dir, r.dif, t, a), case());
            }
        }
    }
    ctx.note("weather_file", json!({"hours": met.data.len(), "hours_checked_for_horizontal_conservation": n_conserv}));
    // the same identities for free inputs (also combinations no weather file holds: strong direct radiation under a low sun)
    let mut n_free = 0u64;
    for lat in [0.0f32, 28.0, 40.7, 43.4, -35.0] {
        for nday in [15u32, 80, 172, 266, 355] {
            for hh in 0..=47 {
                let hour = hh as f32 * 0.5;
                let decl = solar::declination_from_nday(nday);
                let alt_model = solar::altitude_sol_from_data(decl, solar::hourangle_from_tsol(hour), lat);
                if alt_model < 6.0 {
                    // twilight and night: no direct radiation, but the sky may still give some diffuse radiation. What a
                    // downward-facing surface gains when the ground reflects (albedo 0.5 against albedo 0) is half of it,
                    // wherever the sun is (the difference leaves out what the sky model itself does under a sun below the horizon)
                    for dif in [0.0f32, 5.0, 40.0] {
                        n_free += 1;
                        let r0 = climate::radiation_for_surface(nday, hour, SolarRadiation { dir: 0.0, dif }, lat, 180.0, 0.0, 0.0);
                        let r5 = climate::radiation_for_surface(nday, hour, SolarRadiation { dir: 0.0, dif }, lat, 180.0, 0.0, 0.5);
                        let gain = (r5.dir + r5.dif) as f64 - (r0.dir + r0.dif) as f64;
                        if (gain - 0.5 * dif as f64).abs() > 0.001 * dif as f64 + 0.05 {
                            ctx.violation("radiation:downward-not-albedo:low-sun", &format!("with ground albedo 0.5 instead of 0 a downward surface gains {:.3} W/m2, half the global horizontal radiation is {:.3} (sun altitude {:.2})", gain, 0.5 * dif, alt_model), json!({"part": "radiation-free-inputs", "latitude": lat, "nday": nday, "hour": hour, "dir_hor": 0, "dif_hor": dif, "altitude": alt_model}));
                        }
                    }
                    continue;
                }
                for dir in [0.0f32, 20.0, 150.0, 250.0, 500.0, 900.0] {
                    for dif in [0.0f32, 40.0, 150.0, 400.0] {
                        for albedo in [0.2f32, 0.0, 0.5] {
                            let gin = (dir + dif) as f64;
                            if gin == 0.0 {
                                continue;
                            }
                            n_free += 1;
                            let case = || json!({"part": "radiation-free-inputs", "latitude": lat, "nday": nday, "hour": hour, "dir_hor": dir, "dif_hor": dif, "albedo": albedo, "altitude": alt_model});
                            let hor = climate::radiation_for_surface(nday, hour, SolarRadiation { dir, dif }, lat, 0.0, 0.0, albedo);
                            let gout = (hor.dir + hor.dif) as f64;
                            if (gout - gin).abs() > 0.001 * gin + 0.05 {
                                ctx.violation("radiation:horizontal-not-conserved", &format!("horizontal surface receives {:.3} W/m2 for {:.3} W/m2 global horizontal", gout, gin), case());
                            }
                            let down = climate::radiation_for_surface(nday, hour, SolarRadiation { dir, dif }, lat, 180.0, 0.0, albedo);
                            let dout = (down.dir + down.dif) as f64;
                            if (dout - albedo as f64 * gin).abs() > 0.001 * gin + 0.05 {
                                ctx.violation("radiation:downward-not-albedo", &format!("downward surface receives {:.3} W/m2, albedo x global = {:.3}", dout, albedo as f64 * gin), case());
                            }
                            for (t, a) in [(90.0f32, 0.0f32), (90.0, 180.0), (30.0, -90.0), (135.0, 45.0)] {
                                let r = climate::radiation_for_surface(nday, hour, SolarRadiation { dir, dif }, lat, t, a, albedo);
                                if r.dir < 0.0 || !r.dir.is_finite() || !r.dif.is_finite() {
                                    ctx.violation("radiation:negative-or-nonfinite-beam", &format!("beam {} diffuse {} on tilt {} azimuth {}", r.dir, r.dif, t, a), case());
                                }
                            }
                        }
                    }
                }
            }
        }
    }
    n_eval += 6 * n_free;
    ctx.note("free_inputs", json!({"points_with_altitude_ge_6": n_free}));
    // ---------------- (5) embedded tables
    let classes = ["N", "NE", "E", "SE", "S", "SW", "W", "NW", "HZ"];
    {
        let monthly = MONTHLYRADDATA.lock().unwrap();
        let july = JULYRADDATA.lock().unwrap();
        let meta = CLIMATEMETADATA.lock().unwrap();
        for zn in ALL_ZONES {
            let z = zone(zn);
            // name <-> ClimateZone
            match climatedata::ClimateZone::try_from(zn) {
                Ok(z2) if z2 == z && format!("{}", z2) == zn => {}
                other => ctx.violation("tables:zone-name", &format!("zone name {} does not map back to itself ({:?})", zn, other.map(|z| format!("{}", z)).ok()), json!({"zone": zn})),
            }
            if meta.get(&z).is_none() {
                ctx.violation("tables:metadata-missing", &format!("no climate metadata for {}", zn), json!({"zone": zn}));
            }
            for c in classes {
                n_eval += 1;
                let rows: Vec<_> = monthly.iter().filter(|r| r.zone == z && serde_json::to_value(r.orientation).unwrap() == json!(c)).collect();
                if rows.len() != 1 {
                    ctx.violation("tables:monthly-row-count", &format!("{} monthly rows for zone {} orientation {}", rows.len(), zn, c), json!({"zone": zn, "orientation": c}));
                    continue;
                }
                let r = rows[0];
                if r.dir.len() != 12 || r.dif.len() != 12 || r.dir.iter().chain(r.dif.iter()).any(|v| !(*v >= 0.0) || !v.is_finite()) {
                    ctx.violation("tables:monthly-values", &format!("zone {} orientation {}: needs 12 non-negative values", zn, c), json!({"zone": zn, "orientation": c}));
                }
                outcomes.insert(hash64(&format!("{:?}{:?}", r.dir, r.dif)));
            }
            match july.get(&z) {
                None => ctx.violation("tables:july-missing", &format!("no July-day table for {}", zn), json!({"zone": zn})),
                Some(rows) => {
                    n_eval += rows.len() as u64;
                    if rows.len() < 10 || rows.iter().any(|r| !(r.dir >= 0.0) || !(r.dif >= 0.0) || r.month != 7 || !(r.altitude >= 0.0 && r.altitude <= 90.0)) {
                        ctx.violation("tables:july-values", &format!("July-day table of {}: {} rows, needs >= 10 non-negative July rows", zn, rows.len()), json!({"zone": zn}));
                    }
                }
            }
        }
        // D3: July rows = the weather file's rows of that day
        let z = zone("D3");
        if let Some(rows) = july.get(&z) {
            let (mm, dd) = (rows[0].month, rows[0].day);
            let file_rows: Vec<_> = met.data.iter().filter(|d| d.month == mm && d.day == dd && (d.rdifhor > 0.0 || d.rdirhor > 0.0)).collect();
            if file_rows.len() != rows.len() {
                ctx.violation("tables:july-D3-vs-met:rows", &format!("{} table rows, {} daylight rows in the weather file for {}/{}", rows.len(), file_rows.len(), dd, mm), json!({"zone": "D3"}));
            } else {
                for (r, f) in rows.iter().zip(file_rows.iter()) {
                    n_eval += 1;
                    if r.hour != f.hour || (r.dir - f.rdirhor).abs() > 0.01 || (r.dif - f.rdifhor).abs() > 0.01 || (r.azimuth - f.azimuth).abs() > 0.01 || (r.altitude - (90.0 - f.zenith)).abs() > 0.01 {
                        ctx.violation("tables:july-D3-vs-met:values", &format!("hour {}: table {:?} vs file dir {} dif {} az {} alt {}", r.hour, r, f.rdirhor, f.rdifhor, f.azimuth, 90.0 - f.zenith), json!({"zone": "D3", "hour": r.hour}));
                    }
                }
            }
        }
        // D3 monthly rows = what the radiation model computes from the shipped file for (beta, gamma)
        for r in monthly.iter().filter(|r| r.zone == z) {
            let rad = climate::period_radiation_for_surface(&met.data, lat, r.beta, r.gamma, 0.2);
            let mut dir = vec![0.0f64; 12];
            let mut dif = vec![0.0f64; 12];
            for x in &rad {
                dir[(x.month - 1) as usize] += x.dir as f64 / 1000.0;
                dif[(x.month - 1) as usize] += x.dif as f64 / 1000.0;
            }
            n_eval += 12;
            let oname = serde_json::to_value(r.orientation).unwrap().as_str().unwrap().to_string();
            for mth in 0..12 {
                if (dir[mth] - r.dir[mth] as f64).abs() > 0.0151 || (dif[mth] - r.dif[mth] as f64).abs() > 0.0151 {
                    ctx.violation(&format!("tables:monthly-D3-vs-model:{}", oname), &format!("D3/{} month {}: table dir {} dif {}, model gives {:.3} / {:.3} for tilt {} azimuth {}", oname, mth + 1, r.dir[mth], r.dif[mth], dir[mth], dif[mth], r.beta, r.gamma), json!({"zone": "D3", "orientation": oname, "month": mth + 1}));
                    break;
                }
            }
            // labelling: the row's own (beta, gamma), read in the radiation model's convention (S=0, E+), must classify as its label
            let cls = if r.beta < 1.0 { "HZ".to_string() } else { crate::ind::orient_class(r.gamma as f64).to_string() };
            let cls_code = if r.beta < 1.0 { "HZ".to_string() } else { serde_json::to_value(Orientation::from(r.gamma)).unwrap().as_str().unwrap().to_string() };
            // and directly: the model's radiation for the class centre (model convention S=0, E=+90) vs the row labelled with that class
            let centre = match oname.as_str() { "N" => 180.0, "NE" => 135.0, "E" => 90.0, "SE" => 45.0, "S" => 0.0, "SW" => -45.0, "W" => -90.0, "NW" => -135.0, _ => 0.0 };
            let rad_c = climate::period_radiation_for_surface(&met.data, lat, r.beta, centre, 0.2);
            let mut dir_c = vec![0.0f64; 12];
            for x in &rad_c {
                dir_c[(x.month - 1) as usize] += x.dir as f64 / 1000.0;
            }
            let differs = (0..12).any(|mth| (dir_c[mth] - r.dir[mth] as f64).abs() > 0.0151);
            if differs || cls != oname || cls_code != oname {
                ctx.violation(&format!("MONTHLYRADDATA D3/{}", oname), &format!("row labelled {} (July beam {}) is not what the radiation model computes for a {}-facing surface (azimuth {} in the model convention S=0, E=+90: July beam {:.2}); it was computed for azimuth {}, which the model classifies as {}: east/west rows are swapped", oname, r.dir[6], oname, centre, dir_c[6], r.gamma, cls_code), json!({"zone": "D3", "orientation": oname, "gamma": r.gamma}));
            }
        }
    }
    // the accessor the indicators read the monthly table through (it takes the table's lock itself)
    {
        let table: Vec<(String, String, f32)> = MONTHLYRADDATA.lock().unwrap().iter().map(|r| (format!("{}", r.zone), serde_json::to_value(r.orientation).unwrap().as_str().unwrap().to_string(), r.dir[6] + r.dif[6])).collect();
        for zn in ALL_ZONES {
            let got = climatedata::total_radiation_in_july_by_orientation(&zone(zn));
            for c in classes {
                n_eval += 1;
                let exp: Vec<f32> = table.iter().filter(|(z, o, _)| z == zn && o == c).map(|x| x.2).collect();
                let g: Vec<f32> = got.iter().filter(|(o, _)| serde_json::to_value(**o).unwrap() == json!(c)).map(|(_, v)| *v).collect();
                if exp.len() == 1 && g != exp {
                    ctx.violation("tables:july-total-by-orientation", &format!("zone {} orientation {}: the July total handed to the indicators is {:?}, the table row says {:?}", zn, c, g, exp), json!({"zone": zn, "orientation": c}));
                }
            }
            if got.len() != 9 {
                ctx.violation("tables:july-total-by-orientation:count", &format!("zone {}: {} orientations handed to the indicators, 9 in the table", zn, got.len()), json!({"zone": zn}));
            }
        }
    }
    ctx.sample(json!({"part": "tables", "zone": "D3", "orientation": "SE", "check": "12 monthly sums of period_radiation_for_surface(zonaD3.met) == table row"}));
    ctx.eval(n_eval);
    ctx.nontriv(above + n_conserv + 365 + 32 * 9);
    ctx.outcome_merge(&outcomes);
    ctx.finish(
        "model_checking",
        &format!("all 365 (month, day) pairs against a calendar table (nday_from_md and nday_from_ymd); sun altitude/azimuth on the full grid latitude [-66,66] x declination [-23.45,23.45] x hour angle (-180,180) with step {} degrees against the spherical-astronomy sun vector (E,N,U) for altitudes in [1,89] (0.05 degrees; azimuth tolerance scaled by 1/cos(alt)); incidence angle for tilt 0..180 x surface azimuth -180..180 (15 degree grid) x 6 latitudes x 5 declinations x 47 hour angles (solar::angle_sol_surf and climate::sunsurface_angles) against the angle between that sun vector and WallGeom::normal (also tied to ray_dir_to_sun; the normal also for a rectangle at five offsets in its plane x four starting corners); all 8760 hours of zonaD3.met: horizontal conservation (altitude >= 6), downward = albedo x global, beam >= 0 on the 9 standard orientations; the same three identities on the free-input grid latitude{{0,28,40.7,43.4,-35}} x day{{15,80,172,266,355}} x every half hour (model altitude >= 6; below that: gain of a downward surface between albedo 0 and 0.5 = half the diffuse input, dif{{0,5,40}}) x dir{{0,20,150,250,500,900}} x dif{{0,40,150,400}} x albedo{{.2,0,.5}}; 32 zones x 9 classes x 12 months and July-day rows exist, non-negative; zone names round-trip; D3 July rows == weather file rows; D3 monthly rows == monthly sums of the radiation model on the shipped file; row label == class of the azimuth it was computed for; total_radiation_in_july_by_orientation(zone) == the July column of the table for all 32 x 9", step),
        true,
        json!({}),
    )
}
