//! C07 — window U-value and solar factors (E1: full product of construction parameters)

use crate::common::*;
use crate::gen::*;
use bemodel::*;
use serde_json::json;
use std::collections::HashSet;

pub fn run(ctx: &Ctx) -> i32 {
    let ff = [0.0f32, 0.1, 0.25, 0.5, 1.0];
    let du = [0.0f32, 10.0, 50.0];
    let ug = [0.6f32, 1.0, 3.3, 5.7];
    let uf = [0.8f32, 2.2, 5.7, 7.0];
    let gn = [0.2f32, 0.5, 0.85, 0.0];
    let gsh = [None, Some(0.05f32), Some(0.337), Some(0.0)];
    let sp = Grid::new(&[
        ("f_f", ff.len()),
        ("delta_u", du.len()),
        ("u_glass", ug.len()),
        ("u_frame", uf.len()),
        ("g_gln", gn.len()),
        ("g_glshwi", gsh.len()),
        ("glass_ref", 3),
        ("frame_ref", 3),
    ]);
    let n = sp.size();
    let base = simple_box(zone("D3"));
    let h_s = {
        let t = climatedata::MONTHLYRADDATA.lock().unwrap();
        let r = t.iter().find(|r| r.zone == zone("D3") && r.orientation == Orientation::S).unwrap();
        r.dir[6] + r.dif[6]
    };

    #[derive(Default)]
    struct Acc {
        outcomes: HashSet<u64>,
        nontriv: u64,
    }
    let accs = par_fold(n, |i, acc: &mut Acc| {
        let t = sp.unrank(i);
        let (f_f, d_u, u_g, u_f, g_n, g_sh, gref, fref) = (ff[t[0]], du[t[1]], ug[t[2]], uf[t[3]], gn[t[4]], gsh[t[5]], t[6], t[7]);
        let mut m = base.clone();
        m.cons.glasses = vec![glass("gl", u_g, g_n)];
        m.cons.frames = vec![frame("fr", u_f)];
        if i % 2 == 1 {
            // every other model lists another glazing and another frame first: an element is found by its id, not by
            // where an element with that id was found in the model looked at before
            m.cons.glasses.insert(0, glass("decoy-gl", 9.9, 0.99));
            m.cons.frames.insert(0, frame("decoy-fr", 9.9));
        }
        let gid = match gref {
            0 => uid("gl"),
            1 => nil(),
            _ => uid("dangling-glass"),
        };
        let fid = match fref {
            0 => uid("fr"),
            1 => nil(),
            _ => uid("dangling-frame"),
        };
        m.cons.wincons = vec![wincons("winc", gid, fid, f_f, d_u, g_sh, 27.0)];
        let wc = &m.cons.wincons[0];
        ctx.eval(1);
        let case = || json!({"space": sp.describe(&t), "wincons": serde_json::to_value(wc).unwrap(), "glass": [u_g, g_n], "frame_u": u_f});
        if i == 0 || i == n / 2 || i == n - 1 {
            ctx.sample(case());
        }

        // --- direct observation
        let u = wc.u_value(&m.cons);
        let gwi = wc.g_glwi(&m.cons);
        let gshwi = wc.g_glshwi(&m.cons);
        let both = gref == 0 && fref == 0;
        let u_ref = (1.0 + d_u as f64 / 100.0) * (f_f as f64 * u_f as f64 + (1.0 - f_f as f64) * u_g as f64);
        if both {
            acc.nontriv += 1;
            match u {
                None => ctx.violation("wincons.u_value:none-with-glass-and-frame", "U-value missing although glazing and frame resolve", case()),
                Some(u) => {
                    if (u as f64 - u_ref).abs() > 0.00501 + 1e-5 * u_ref {
                        ctx.violation("wincons.u_value:formula", &format!("U={} expected {:.4}", u, u_ref), case());
                    }
                    let lo = (u_g.min(u_f) as f64) * (1.0 + d_u as f64 / 100.0) - 0.00501;
                    let hi = (u_g.max(u_f) as f64) * (1.0 + d_u as f64 / 100.0) + 0.00501;
                    if (u as f64) < lo - 1e-4 || (u as f64) > hi + 1e-4 {
                        ctx.violation("wincons.u_value:bounds", &format!("U={} outside [{:.3},{:.3}]", u, lo, hi), case());
                    }
                }
            }
        } else if u.is_some() {
            ctx.violation("wincons.u_value:some-without-glass-or-frame", &format!("U={:?} although glazing/frame missing", u), case());
        }
        let gwi_ref = (0.9f64 * g_n as f64 * 100.0).round() / 100.0;
        if gref == 0 {
            match gwi {
                Some(g) if (g as f64 - 0.9 * g_n as f64).abs() <= 0.00501 && (g as f64 - gwi_ref).abs() < 0.0101 => {}
                _ => ctx.violation("wincons.g_glwi:formula", &format!("g_glwi={:?} expected {:.3}", gwi, gwi_ref), case()),
            }
        } else if gwi.is_some() {
            ctx.violation("wincons.g_glwi:some-without-glass", &format!("g_glwi={:?} although glazing missing", gwi), case());
        }
        let gshwi_ref: Option<f64> = match g_sh {
            Some(v) => Some(v as f64),
            None => {
                if gref == 0 {
                    Some(0.9 * g_n as f64)
                } else {
                    None
                }
            }
        };
        match (gshwi, gshwi_ref) {
            (None, None) => {}
            (Some(a), Some(b)) if (a as f64 - b).abs() <= 0.00501 => {}
            _ => ctx.violation("wincons.g_glshwi:formula", &format!("g_glshwi={:?} expected {:?}", gshwi, gshwi_ref), case()),
        }

        // --- the same construction after the model went through its JSON form (what the export tool hands on)
        if let Some(m2) = m.as_json().ok().and_then(|j| Model::from_json(&j).ok()) {
            let wc2 = &m2.cons.wincons[0];
            let (u2, gwi2, gshwi2) = (wc2.u_value(&m2.cons), wc2.g_glwi(&m2.cons), wc2.g_glshwi(&m2.cons));
            if u2 != u || gwi2 != gwi || gshwi2 != gshwi {
                ctx.violation("wincons:changed-by-json-round-trip", &format!("U, g_glwi, g_glshwi = {:?}, {:?}, {:?} before and {:?}, {:?}, {:?} after writing the model to JSON and reading it back", u, gwi, gshwi, u2, gwi2, gshwi2), case());
            }
        } else {
            ctx.violation("wincons:model-json-does-not-load", "the model's own JSON does not load back", case());
        }
        // --- downstream observation
        let ind = m.energy_indicators();
        let Some(wp) = ind.props.wincons.get(&uid("winc")) else {
            ctx.violation("props.wincons:missing-entry", "the indicators carry no entry for the window construction of the model", case());
            return;
        };
        if wp.u_value != u {
            ctx.violation("props.wincons.u_value:differs", &format!("props {:?} vs direct {:?}", wp.u_value, u), case());
        }
        let gwi_down_ref = if gref == 0 { 0.9 * g_n as f64 } else { 0.77 };
        if (wp.g_glwi as f64 - gwi_down_ref).abs() > 0.00501 {
            ctx.violation("props.wincons.g_glwi:default", &format!("props g_glwi={} expected {:.3}", wp.g_glwi, gwi_down_ref), case());
        }
        let gshwi_down_ref = match g_sh {
            Some(v) => v as f64,
            None => gwi_down_ref,
        };
        if (wp.g_glshwi as f64 - gshwi_down_ref).abs() > 0.00501 {
            ctx.violation("props.wincons.g_glshwi:default", &format!("props g_glshwi={} expected {:.3}", wp.g_glshwi, gshwi_down_ref), case());
        }
        // K: window U used
        let k_u_ref = if both { u_ref } else { 5.7 };
        match ind.K_data.windows.u_mean {
            Some(um) if (um as f64 - k_u_ref).abs() <= 0.00501 + 1e-4 * k_u_ref => {}
            other => ctx.violation("K.windows.u_mean:default", &format!("K windows u_mean={:?} expected {:.3}", other, k_u_ref), case()),
        }
        // q_soljul: gains = F * g_glshwi * (1 - f_f) * A * H
        let q = &ind.q_soljul_data;
        let fsh = ind.props.windows.get(&uid("W1")).and_then(|w| w.f_shobst).unwrap_or(1.0) as f64;
        let gains_ref = fsh * (wp.g_glshwi as f64) * (1.0 - f_f as f64) * 3.0 * h_s as f64;
        if !close(q.Q_soljul as f64, gains_ref, 1e-3, 1e-4) {
            ctx.violation("qsoljul.gains:wincons", &format!("Q_soljul={} expected {:.4}", q.Q_soljul, gains_ref), case());
        }
        if (q.gglshwi_mean as f64 - wp.g_glshwi as f64).abs() > 1e-4 || (q.f_f_mean - f_f).abs() > 1e-4 {
            ctx.violation("qsoljul.means:wincons", &format!("means g={} f_f={}", q.gglshwi_mean, q.f_f_mean), case());
        }
        acc.outcomes.insert(hash64(&(u.map(f32::to_bits), gwi.map(f32::to_bits), gshwi.map(f32::to_bits), ind.K_data.K.to_bits(), q.Q_soljul.to_bits())));
    });
    // --- ordered pairs of constructions in one model: what is reported for one construction must not depend on the
    // other one, also when they share a glazing (present, nil or dangling) or a frame
    let pff = [0.0f32, 0.25];
    let pdu = [0.0f32, 10.0];
    let pg = Grid::new(&[("f_f", pff.len()), ("delta_u", pdu.len()), ("g_glshwi", gsh.len()), ("glass_ref{gl,gl2,nil,dangling}", 4), ("frame_ref{fr,nil}", 2)]);
    let np = pg.size() * pg.size();
    let gl_u = [1.0f32, 3.3];
    let gl_g = [0.5f32, 0.85];
    let fr_u = 2.2f32;
    let expect = |t: &[usize]| -> (Option<f64>, f64, f64, f64) {
        let (f_f, d_u, g_sh, gref, fref) = (pff[t[0]] as f64, pdu[t[1]] as f64, gsh[t[2]], t[3], t[4]);
        let u = if gref < 2 && fref == 0 { Some((1.0 + d_u / 100.0) * (f_f * fr_u as f64 + (1.0 - f_f) * gl_u[gref] as f64)) } else { None };
        let gwi = if gref < 2 { 0.9 * gl_g[gref] as f64 } else { 0.77 };
        let gshwi = g_sh.map(|v| v as f64).unwrap_or(gwi);
        (u, gwi, gshwi, f_f)
    };
    let accs2 = par_fold(np, |i, acc: &mut Acc| {
        let (ta, tb) = (pg.unrank(i / pg.size()), pg.unrank(i % pg.size()));
        let mut m = base.clone();
        m.cons.glasses = vec![glass("gl", gl_u[0], gl_g[0]), glass("gl2", gl_u[1], gl_g[1])];
        m.cons.frames = vec![frame("fr", fr_u)];
        let mk = |name: &str, t: &[usize]| {
            let gid = [uid("gl"), uid("gl2"), nil(), uid("dangling-glass")][t[3]];
            let fid = [uid("fr"), nil()][t[4]];
            wincons(name, gid, fid, pff[t[0]], pdu[t[1]], gsh[t[2]], 27.0)
        };
        m.cons.wincons = vec![mk("winc", &ta), mk("winc2", &tb)];
        // (every other pair: no window uses the second construction - it is a window construction of the model all the same)
        if i % 2 == 0 {
            m.windows.push(window("W2", uid("winc2"), uid("S1_E"), Some([1.0, 1.0]), 2.0, 1.5, 0.0));
        }
        ctx.eval(1);
        let case = || json!({"part": "pair", "first": pg.describe(&ta), "second": pg.describe(&tb), "wincons": serde_json::to_value(&m.cons.wincons).unwrap()});
        if i == np / 3 {
            ctx.sample(case());
        }
        let ind = m.energy_indicators();
        for (name, t) in [("winc", &ta), ("winc2", &tb)] {
            let (u, gwi, gshwi, _) = expect(t);
            let Some(wp) = ind.props.wincons.get(&uid(name)) else {
                ctx.violation("props.wincons:missing-entry", &format!("no entry for {}", name), case());
                continue;
            };
            let u_ok = match (wp.u_value, u) {
                (None, None) => true,
                (Some(a), Some(b)) => (a as f64 - b).abs() <= 0.00501 + 1e-5 * b,
                _ => false,
            };
            if !u_ok {
                ctx.violation("props.wincons.u_value:pair", &format!("{}: props U={:?} expected {:?}", name, wp.u_value, u), case());
            }
            if (wp.g_glwi as f64 - gwi).abs() > 0.00501 {
                ctx.violation("props.wincons.g_glwi:pair", &format!("{}: props g_glwi={} expected {:.3}", name, wp.g_glwi, gwi), case());
            }
            if (wp.g_glshwi as f64 - gshwi).abs() > 0.00501 {
                ctx.violation("props.wincons.g_glshwi:pair", &format!("{}: props g_glshwi={} expected {:.3}", name, wp.g_glshwi, gshwi), case());
            }
        }
        // K: each window enters with its own U, or with 5.7 when it has none (both windows measure 2 x 1.5)
        let (ua, ub) = (expect(&ta).0.unwrap_or(5.7), expect(&tb).0.unwrap_or(5.7));
        let um_ref = if i % 2 == 0 { (ua + ub) / 2.0 } else { ua };
        match ind.K_data.windows.u_mean {
            Some(um) if (um as f64 - um_ref).abs() <= 0.00501 + 1e-4 * um_ref => {}
            other => ctx.violation("K.windows.u_mean:pair", &format!("K windows u_mean={:?} expected {:.3} (windows with U {:.3} and {:.3}; 5.7 where none)", other, um_ref, ua, ub), case()),
        }
        // q_sol;jul: each window with the solar factors of its own construction (or 0.77 / 0.20 without one)
        if ta[3] < 2 && ta[4] == 0 && tb[3] < 2 && tb[4] == 0 {
            acc.nontriv += 1;
        }
        acc.outcomes.insert(hash64(&(ind.K_data.K.to_bits(), ind.q_soljul_data.Q_soljul.to_bits())));
    });
    let mut nt = 0;
    for a in accs.iter().chain(accs2.iter()) {
        ctx.outcome_merge(&a.outcomes);
        nt += a.nontriv;
    }
    ctx.nontriv(nt);
    ctx.finish(
        "model_checking",
        "full Cartesian product f_f{0,.1,.25,.5,1} x dU{0,10,50} x Uglass{.6,1,3.3,5.7} x Uframe{.8,2.2,5.7,7} x g_n{.2,.5,.85,0 (opaque panel)} x g_glshwi{None,.05,.337,0 (opaque shading)} x glass ref{ok,nil,dangling} x frame ref{ok,nil,dangling}, each construction observed directly (WinCons::u_value/g_glwi/g_glshwi), again after a JSON round trip of the model, and inside a one-window box model through props.wincons, K_data.windows and q_soljul_data; tuples are distinct by construction (every other model lists a decoy glazing and frame first); all ordered pairs of a 96-construction alphabet (f_f{0,.25} x dU{0,10} x g_glshwi(3) x glazing{gl,gl2,nil,dangling} x frame{fr,nil}) as two constructions of one model with one window each (in every other pair no window uses the second one), every props.wincons entry against the formula for that construction alone and the mean window U in K against the two values (5.7 where a construction has none); non-trivial = glazing and frame both resolve (formula path)",
        true,
        json!({"space_size": n, "pairs": np}),
    )
}
