//! Shared machinery: run context, violations / known findings, evidence, parallel enumeration.

use serde_json::{json, Value};
use std::collections::{BTreeMap, BTreeSet, HashSet};
use std::hash::{Hash, Hasher};
use std::sync::atomic::{AtomicU64, Ordering};
use std::sync::Mutex;
use std::time::Instant;

pub fn verif_dir() -> String {
    std::env::var("VERIF_DIR").unwrap_or_else(|_| "/verif".to_string())
}

pub fn repo_dir() -> String {
    std::env::var("VERIF_REPO").unwrap_or_else(|_| "/repo".to_string())
}

#[derive(Clone, Copy, PartialEq, Eq, Debug)]
pub enum Tier {
    Quick,
    Thorough,
}

impl Tier {
    pub fn name(self) -> &'static str {
        match self {
            Tier::Quick => "quick",
            Tier::Thorough => "thorough",
        }
    }
    pub fn pick<T>(self, q: T, t: T) -> T {
        match self {
            Tier::Quick => q,
            Tier::Thorough => t,
        }
    }
}

pub fn nthreads() -> usize {
    std::env::var("VERIF_THREADS")
        .ok()
        .and_then(|v| v.parse().ok())
        .unwrap_or_else(|| std::thread::available_parallelism().map(|n| n.get()).unwrap_or(8))
}

pub fn hash64<T: Hash + ?Sized>(t: &T) -> u64 {
    let mut h = std::collections::hash_map::DefaultHasher::new();
    t.hash(&mut h);
    h.finish()
}

// ---------------------------------------------------------------- known findings

#[derive(Debug, Clone)]
pub struct Finding {
    pub status: String, // open | fixed
    pub property: String,
    pub key: String,
    pub what: String,
}

/// Format of /verif/known_findings.txt (read-only at run time), one entry per line:
///   open: property=C20 key=<key> :: <what fails>
///   fixed: property=C13 <commit> key=<key> :: <what failed>
pub fn load_known_findings() -> Vec<Finding> {
    let path = format!("{}/known_findings.txt", verif_dir());
    let txt = std::fs::read_to_string(path).unwrap_or_default();
    let mut out = vec![];
    for line in txt.lines() {
        let line = line.trim();
        if line.is_empty() || line.starts_with('#') {
            continue;
        }
        let (status, rest) = match line.split_once(':') {
            Some((s, r)) if s == "open" || s == "fixed" => (s.to_string(), r.trim()),
            _ => continue,
        };
        let property = rest
            .split_whitespace()
            .find_map(|t| t.strip_prefix("property="))
            .unwrap_or("")
            .to_string();
        let (keypart, what) = match rest.split_once(" :: ") {
            Some((a, b)) => (a, b.to_string()),
            None => (rest, String::new()),
        };
        let key = keypart
            .split_once("key=")
            .map(|(_, k)| k.trim().to_string())
            .unwrap_or_default();
        out.push(Finding {
            status,
            property,
            key,
            what,
        });
    }
    out
}

// ---------------------------------------------------------------- run context

pub struct Ctx {
    pub id: String,
    pub tier: Tier,
    pub seed: u64,
    pub start: Instant,
    known: Vec<Finding>,
    /// key -> (count, first replay path)
    viol: Mutex<BTreeMap<String, (u64, String, bool)>>,
    pub evaluations: AtomicU64,
    pub nontrivial: AtomicU64,
    outcomes: Mutex<HashSet<u64>>,
    distinct: Mutex<HashSet<u64>>,
    samples: Mutex<Vec<Value>>,
    pub notes: Mutex<BTreeMap<String, Value>>,
    pub machinery_errors: Mutex<Vec<String>>,
}

impl Ctx {
    pub fn new(id: &str, tier: Tier) -> Self {
        let seed = std::env::var("VERIF_SEED")
            .ok()
            .and_then(|v| v.parse::<u64>().ok())
            .unwrap_or(0);
        let _ = std::fs::remove_dir_all(format!("{}/replays/{}", verif_dir(), id));
        Ctx {
            id: id.to_string(),
            tier,
            seed,
            start: Instant::now(),
            known: load_known_findings(),
            viol: Mutex::new(BTreeMap::new()),
            evaluations: AtomicU64::new(0),
            nontrivial: AtomicU64::new(0),
            outcomes: Mutex::new(HashSet::new()),
            distinct: Mutex::new(HashSet::new()),
            samples: Mutex::new(vec![]),
            notes: Mutex::new(BTreeMap::new()),
            machinery_errors: Mutex::new(vec![]),
        }
    }

    pub fn eval(&self, n: u64) {
        self.evaluations.fetch_add(n, Ordering::Relaxed);
    }
    pub fn nontriv(&self, n: u64) {
        self.nontrivial.fetch_add(n, Ordering::Relaxed);
    }
    /// record a distinct non-trivial case by hash (use for moderate-size sweeps)
    pub fn distinct_case<T: Hash + ?Sized>(&self, t: &T) {
        self.distinct.lock().unwrap().insert(hash64(t));
    }
    pub fn distinct_merge(&self, hs: &HashSet<u64>) {
        self.distinct.lock().unwrap().extend(hs.iter().copied());
    }
    pub fn outcome<T: Hash + ?Sized>(&self, t: &T) {
        self.outcomes.lock().unwrap().insert(hash64(t));
    }
    pub fn outcome_merge(&self, hs: &HashSet<u64>) {
        self.outcomes.lock().unwrap().extend(hs.iter().copied());
    }
    pub fn sample(&self, v: Value) {
        let mut s = self.samples.lock().unwrap();
        if s.len() < 6 {
            s.push(v);
        }
    }
    pub fn note(&self, k: &str, v: Value) {
        self.notes.lock().unwrap().insert(k.to_string(), v);
    }
    pub fn machinery_error(&self, msg: String) {
        eprintln!("MACHINERY-ERROR: {}", msg);
        self.machinery_errors.lock().unwrap().push(msg);
    }

    fn known_open(&self, key: &str) -> Option<&Finding> {
        self.known
            .iter()
            .find(|f| f.status == "open" && f.property == self.id && f.key == key)
    }

    /// Report a violation. `key` identifies the failing thing (site / class), `what` describes it,
    /// `replay` is the materialised input + expected/observed.
    pub fn violation(&self, key: &str, what: &str, replay: Value) {
        let mut v = self.viol.lock().unwrap();
        let n = v.len();
        let e = v.entry(key.to_string()).or_insert((0, String::new(), false));
        e.0 += 1;
        if e.0 == 1 {
            let known = self.known_open(key).is_some();
            e.2 = known;
            let dir = format!("{}/replays/{}", verif_dir(), self.id);
            let _ = std::fs::create_dir_all(&dir);
            let fname = format!("{}/{:03}-{}.json", dir, n, sanitize(key));
            let doc = json!({"property": self.id, "key": key, "what": what, "tier": self.tier.name(), "replay": replay});
            let _ = std::fs::write(&fname, serde_json::to_string_pretty(&doc).unwrap());
            e.1 = fname.clone();
            if known {
                println!("KNOWN-FINDING: property={} {} {}", self.id, key, what);
            } else {
                println!("VIOLATION property={} replay={}", self.id, fname);
                println!("  key={} :: {}", key, what);
            }
        }
    }

    pub fn violation_count(&self) -> (u64, u64) {
        let v = self.viol.lock().unwrap();
        let new = v.values().filter(|e| !e.2).count() as u64;
        let known = v.values().filter(|e| e.2).count() as u64;
        (new, known)
    }

    /// Write evidence and return the process exit code
    pub fn finish(&self, level: &str, rule: &str, exhaustive: bool, extra: Value) -> i32 {
        let evaluations = self.evaluations.load(Ordering::Relaxed);
        let dn_hash = self.distinct.lock().unwrap().len() as u64;
        let dn_cnt = self.nontrivial.load(Ordering::Relaxed);
        let distinct_nontrivial = if dn_hash > 0 { dn_hash } else { dn_cnt };
        let outcomes = self.outcomes.lock().unwrap().len() as u64;
        let (new, known) = self.violation_count();
        let viol = self.viol.lock().unwrap();
        let mut cov = json!({
            "evaluations": evaluations,
            "distinct_nontrivial": distinct_nontrivial,
            "rule": rule,
            "samples": *self.samples.lock().unwrap(),
            "exhaustive": exhaustive,
            "distinct_outcomes": outcomes,
            "violation_keys": viol.iter().map(|(k, v)| json!({"key": k, "count": v.0, "known": v.2, "replay": v.1})).collect::<Vec<_>>(),
        });
        if level == "model_checking" {
            cov["states"] = json!(distinct_nontrivial.max(1));
            cov["transitions"] = json!(evaluations.max(1));
            cov["traces_validated_against_impl"] = json!(evaluations);
        }
        if let Value::Object(m) = extra {
            for (k, v) in m {
                cov[k] = v;
            }
        }
        for (k, v) in self.notes.lock().unwrap().iter() {
            cov[k] = v.clone();
        }
        let merrs = self.machinery_errors.lock().unwrap().clone();
        let mut vacuous = false;
        if evaluations == 0 || distinct_nontrivial < 2 || (outcomes > 0 && outcomes < 2) {
            vacuous = true;
        }
        let ev = json!({
            "property_id": self.id,
            "tier": self.tier.name(),
            "seed": self.seed,
            "level": level,
            "coverage": cov,
            "assumptions": [
                "the harness is built against /repo's current working tree (cargo path dependencies, --cfg cteenergymodel_verif)",
                "reference models / oracles in /verif/harness/src are correct (calibrated on the unchanged tree, see DESIGN.md)",
                "verdict holds only for the enumerated alphabets and bounds stated in coverage.rule"
            ],
            "wall_s": self.start.elapsed().as_secs_f64(),
            "violations": new,
            "known_findings_seen": known,
            "machinery_errors": merrs,
        });
        let _ = std::fs::create_dir_all(format!("{}/evidence", verif_dir()));
        let path = format!("{}/evidence/{}.json", verif_dir(), self.id);
        std::fs::write(&path, serde_json::to_string_pretty(&ev).unwrap()).expect("write evidence");
        eprintln!(
            "[{} {}] evaluations={} distinct_nontrivial={} outcomes={} violations(new)={} known={} wall={:.1}s",
            self.id,
            self.tier.name(),
            evaluations,
            distinct_nontrivial,
            outcomes,
            new,
            known,
            self.start.elapsed().as_secs_f64()
        );
        if new > 0 {
            1
        } else if !merrs.is_empty() {
            2
        } else if vacuous {
            eprintln!("MACHINERY-ERROR: vacuous run (evaluations={}, distinct_nontrivial={}, outcomes={})", evaluations, distinct_nontrivial, outcomes);
            2
        } else {
            0
        }
    }
}

pub fn sanitize(s: &str) -> String {
    let t: String = s
        .chars()
        .map(|c| if c.is_ascii_alphanumeric() || c == '-' || c == '_' { c } else { '_' })
        .collect();
    t.chars().take(60).collect()
}

// ---------------------------------------------------------------- parallel enumeration

/// Run f(i) for i in 0..n on all cores (dynamic chunks). f must be Sync.
pub fn par_for<F: Fn(u64) + Sync>(n: u64, f: F) {
    let nt = nthreads().min(n.max(1) as usize).max(1);
    let next = AtomicU64::new(0);
    let chunk = (n / (nt as u64 * 64)).clamp(1, 4096);
    std::thread::scope(|s| {
        for _ in 0..nt {
            s.spawn(|| loop {
                let a = next.fetch_add(chunk, Ordering::Relaxed);
                if a >= n {
                    break;
                }
                let b = (a + chunk).min(n);
                for i in a..b {
                    f(i);
                }
            });
        }
    });
}

/// Parallel fold: each thread has its own accumulator A, returned at the end.
pub fn par_fold<A: Default + Send, F: Fn(u64, &mut A) + Sync>(n: u64, f: F) -> Vec<A> {
    let nt = nthreads().min(n.max(1) as usize).max(1);
    let next = AtomicU64::new(0);
    let chunk = (n / (nt as u64 * 64)).clamp(1, 65536);
    let out = Mutex::new(Vec::new());
    std::thread::scope(|s| {
        for _ in 0..nt {
            s.spawn(|| {
                let mut acc = A::default();
                loop {
                    let a = next.fetch_add(chunk, Ordering::Relaxed);
                    if a >= n {
                        break;
                    }
                    let b = (a + chunk).min(n);
                    for i in a..b {
                        f(i, &mut acc);
                    }
                }
                out.lock().unwrap().push(acc);
            });
        }
    });
    out.into_inner().unwrap()
}

/// Mixed-radix space: rank <-> tuple
#[derive(Clone, Debug)]
pub struct Grid {
    pub names: Vec<&'static str>,
    pub radix: Vec<u64>,
}

impl Grid {
    pub fn new(dims: &[(&'static str, usize)]) -> Self {
        Grid {
            names: dims.iter().map(|d| d.0).collect(),
            radix: dims.iter().map(|d| d.1 as u64).collect(),
        }
    }
    pub fn size(&self) -> u64 {
        self.radix.iter().product()
    }
    pub fn unrank(&self, mut i: u64) -> Vec<usize> {
        let mut out = Vec::with_capacity(self.radix.len());
        for r in &self.radix {
            out.push((i % r) as usize);
            i /= r;
        }
        out
    }
    pub fn describe(&self, t: &[usize]) -> Value {
        let mut m = serde_json::Map::new();
        for (n, v) in self.names.iter().zip(t) {
            m.insert(n.to_string(), json!(v));
        }
        Value::Object(m)
    }
}

/// Catch a panic of the subject and return its message + location
pub fn catch<R>(f: impl FnOnce() -> R + std::panic::UnwindSafe) -> Result<R, String> {
    QUIET.with(|q| *q.borrow_mut() += 1);
    let r = std::panic::catch_unwind(f);
    QUIET.with(|q| *q.borrow_mut() -= 1);
    match r {
        Ok(r) => Ok(r),
        Err(e) => {
            let msg = if let Some(s) = e.downcast_ref::<&str>() {
                s.to_string()
            } else if let Some(s) = e.downcast_ref::<String>() {
                s.clone()
            } else {
                "panic".to_string()
            };
            let loc = LAST_PANIC_LOC.with(|l| l.borrow().clone());
            Err(format!("{} @ {}", msg, loc))
        }
    }
}

thread_local! {
    pub static QUIET: std::cell::RefCell<u32> = std::cell::RefCell::new(0);
    pub static LAST_PANIC_LOC: std::cell::RefCell<String> = std::cell::RefCell::new(String::new());
}

/// Install a quiet panic hook that records the location (thread-local)
pub fn install_panic_hook() {
    std::panic::set_hook(Box::new(|info| {
        let loc = info
            .location()
            .map(|l| format!("{}:{}", l.file(), l.line()))
            .unwrap_or_default();
        if QUIET.with(|q| *q.borrow()) == 0 {
            eprintln!("HARNESS PANIC (outside subject): {}", info);
        }
        LAST_PANIC_LOC.with(|l| *l.borrow_mut() = loc);
    }));
}

/// Normalise a panic (message @ file:line) into a key `file :: fn :: message` that is stable under line shifts
pub fn panic_key(p: &str) -> String {
    let (msg, loc) = p.rsplit_once(" @ ").unwrap_or((p, ""));
    let (file, line) = loc.rsplit_once(':').unwrap_or((loc, "0"));
    let line: usize = line.parse().unwrap_or(0);
    let func = enclosing_fn(file, line);
    let file_short = file
        .strip_prefix(&format!("{}/", repo_dir()))
        .unwrap_or(file)
        .to_string();
    // shorten registry paths
    let file_short = if let Some(p) = file_short.find("/registry/src/") {
        let rest = &file_short[p + 14..];
        rest.split_once('/').map(|x| x.1.to_string()).unwrap_or(rest.to_string())
    } else {
        file_short
    };
    format!("{} :: {} :: {}", file_short, func, normalise_msg(msg))
}

pub fn normalise_msg(msg: &str) -> String {
    // the payload of an unwrap()/expect() on Err/None carries input-specific text: keep only the call
    let msg = match msg.find(" value: ") {
        Some(p) => &msg[..p + 6],
        None => msg,
    };
    // `<prefix>: <text>: <payload>`: the part after the second colon is payload
    let msg = {
        let mut it = msg.match_indices(": ");
        match (it.next(), it.next()) {
            (Some(_), Some((p2, _))) => &msg[..p2],
            _ => msg,
        }
    };
    // identifiers (contain a digit or '_', or are ALL-CAPS words) are input-specific too
    let msg: String = msg
        .split(' ')
        .map(|t| {
            let core = t.trim_matches(|c: char| !c.is_alphanumeric() && c != '_');
            let is_id = !core.is_empty() && (core.contains('_') || (core.chars().any(|c| c.is_ascii_digit()) && core.chars().any(|c| c.is_alphabetic())) || (core.len() >= 3 && core.chars().all(|c| c.is_uppercase() || c == '-')));
            if is_id {
                t.replace(core, "<id>")
            } else {
                t.to_string()
            }
        })
        .collect::<Vec<_>>()
        .join(" ");
    let msg = msg.as_str();
    // digits -> N, quoted payloads -> "..", truncate
    let mut out = String::new();
    let mut in_q = false;
    let mut last_n = false;
    for c in msg.chars() {
        if c == '"' || c == '\'' || c == '`' {
            in_q = !in_q;
            if in_q {
                out.push_str("\"..\"");
            }
            last_n = false;
            continue;
        }
        if in_q {
            continue;
        }
        if c.is_ascii_digit() {
            if !last_n {
                out.push('N');
            }
            last_n = true;
        } else if c == '\n' {
            break;
        } else {
            if !(last_n && (c == '.' )) {
                out.push(c);
                last_n = false;
            }
        }
    }
    out.chars().take(70).collect::<String>().trim().to_string()
}

/// Find the name of the fn enclosing `line` in `file` by scanning backwards for `fn name`
pub fn enclosing_fn(file: &str, line: usize) -> String {
    let txt = match std::fs::read_to_string(file) {
        Ok(t) => t,
        Err(_) => return "?".into(),
    };
    let lines: Vec<&str> = txt.lines().collect();
    let mut i = line.min(lines.len());
    while i > 0 {
        i -= 1;
        let l = lines[i].trim_start();
        let l = l
            .trim_start_matches("pub(crate) ")
            .trim_start_matches("pub ")
            .trim_start_matches("const ")
            .trim_start_matches("async ");
        if let Some(rest) = l.strip_prefix("fn ") {
            // only accept item-level fns (indent <= 4) to skip closures named fn? closures don't use `fn`
            let name: String = rest
                .chars()
                .take_while(|c| c.is_alphanumeric() || *c == '_')
                .collect();
            return name;
        }
    }
    "?".into()
}

/// relative closeness
pub fn close(a: f64, b: f64, abs: f64, rel: f64) -> bool {
    (a - b).abs() <= abs + rel * b.abs().max(a.abs())
}

pub fn set_of<T: Ord + Clone>(v: &[T]) -> BTreeSet<T> {
    v.iter().cloned().collect()
}
