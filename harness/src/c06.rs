//! C06 — opaque U-values (E1: dependent products per boundary kind; reference in uref.rs)

use crate::common::*;
use crate::gen::*;
use crate::uref;
use bemodel::*;
use serde_json::{json, Value};
use std::collections::HashSet;

const TILTS: [f32; 13] = [0.0, 45.0, 60.0, 60.01, 90.0, 119.99, 120.0, 180.0, 270.0, 200.0, 330.0, -30.0, 540.0];
const KINDS: [SpaceType; 3] = [SpaceType::CONDITIONED, SpaceType::UNCONDITIONED, SpaceType::UNINHABITED];

/// stacks: returns the construction id to use for the subject; pushes what is needed
fn add_stack(m: &mut Model, which: usize) -> Uuid {
    // materials always present
    let layers: Vec<(Uuid, f32)> = match which {
        0 => vec![],
        1 => vec![(uid("xps"), 0.02)],
        2 => vec![(uid("rair"), 0.0)],
        3 => vec![(uid("xps"), 0.02), (uid("rair"), 0.0)],
        4 => vec![(uid("conc"), 0.3)],
        5 => vec![(uid("xps"), 0.02), (uid("missing-material"), 0.1)],
        6 => vec![(uid("zero-lambda"), 0.1)],
        8 => vec![(uid("xps"), 0.08), (uid("conc"), 0.25), (uid("rair"), 0.0)],
        9 => vec![(uid("conc"), 0.02)],
        _ => return uid("missing-construction"),
    };
    let c = wallcons("subject-cons", &layers);
    let id = c.id;
    m.cons.wallcons.push(c);
    id
}

fn base(kind_a: SpaceType) -> Model {
    let mut m = model_with_meta(meta(zone("D3")));
    m.cons.materials.push(mat_detailed("xps", 0.04));
    m.cons.materials.push(mat_detailed("conc", 2.3));
    m.cons.materials.push(mat_resistance("rair", 0.18));
    m.cons.materials.push(mat_detailed("zero-lambda", 0.0));
    m.cons.wallcons.push(wallcons("slab0", &[(uid("conc"), 0.2)]));
    m.cons.wallcons.push(wallcons("slab1", &[(uid("xps"), 0.1), (uid("conc"), 0.2)]));
    m.cons.wallcons.push(wallcons("ext", &[(uid("xps"), 0.06), (uid("conc"), 0.15)]));
    std_wincons(&mut m);
    m.spaces.push(space("A", kind_a, true, 3.0));
    m
}

fn subject_geom(tilt: f32) -> WallGeom {
    geom(tilt, 0.0, None, rect(4.0, 3.0))
}

/// EXTERIOR / ADIABATIC
fn model_ext(t: &[usize], bounds: BoundaryType) -> Model {
    let mut m = base(KINDS[t[2]]);
    let c = add_stack(&mut m, t[1]);
    m.walls.push(wall("A_F", BoundaryType::GROUND, uid("slab0"), uid("A"), None, geom(180.0, 0.0, None, rect(5.0, 4.0))));
    m.walls.push(wall("X", bounds, c, uid("A"), None, subject_geom(TILTS[t[0]])));
    m
}

/// INTERIOR: t = [tilt, stack, this kind, next{kind0,kind1,kind2,None,dangling}, n_v, global, slab ins, z idx, owner]
fn model_int(t: &[usize], zs: &[f32]) -> Model {
    let mut m = base(KINDS[t[2]]);
    let c = add_stack(&mut m, t[1]);
    // the habitable height (hence the volume the building-wide ventilation rate is spread over) alternates between
    // neighbouring configurations: two models evaluated one after the other on a thread differ in it
    m.spaces[0].height = [3.0, 4.5][(t[0] + t[1] + t[6]) % 2];
    let next_kind = if t[3] < 3 { KINDS[t[3]] } else { SpaceType::UNCONDITIONED };
    let mut b = space("B", next_kind, false, 2.7);
    b.n_v = if t[4] == 0 { Some(0.5) } else { None };
    b.z = zs[t[7]];
    m.spaces.push(b);
    if t[4] == 0 {
        m.spaces[0].n_v = Some(0.8);
    }
    m.meta.global_ventilation_l_s = if t[5] == 0 { Some(30.0) } else { None };
    let slab = if t[6] == 0 { uid("slab0") } else { uid("slab1") };
    // envelope of A and B
    m.walls.push(wall("A_F", BoundaryType::GROUND, slab, uid("A"), None, geom(180.0, 0.0, None, rect(5.0, 4.0))));
    m.walls.push(wall("A_S", BoundaryType::EXTERIOR, uid("ext"), uid("A"), None, geom(90.0, 0.0, None, rect(5.0, 3.0))));
    // every fifth configuration: the neighbour is sealed - no element towards outside air or ground and no air renewal
    // (a shaft, a store room): nothing flows through the partition
    let sealed = (t[0] + 2 * t[1] + t[3] + t[6]) % 5 == 0;
    if sealed {
        m.spaces[1].n_v = Some(0.0);
        m.walls.push(wall("B_F", BoundaryType::ADIABATIC, slab, uid("B"), None, geom(180.0, 0.0, None, rect(5.0, 3.0))));
    } else {
        m.walls.push(wall("B_F", BoundaryType::GROUND, slab, uid("B"), None, geom(180.0, 0.0, None, rect(5.0, 3.0))));
        m.walls.push(wall("B_S", BoundaryType::EXTERIOR, uid("ext"), uid("B"), None, geom(90.0, 0.0, None, rect(5.0, 2.7))));
        m.walls.push(wall("B_W", BoundaryType::GROUND, uid("ext"), uid("B"), None, geom(90.0, 90.0, None, rect(3.0, 2.7))));
        // (a large glazed part: the opaque share of the neighbour's facade is what is left of it)
        m.windows.push(window("B_S_v", uid("winc"), uid("B_S"), None, 3.0, 2.0, 0.0));
        m.windows.push(window("B_S_v2", uid("missing-wincons"), uid("B_S"), None, 0.5, 0.5, 0.0));
    }
    let (own, nxt) = if t[8] == 0 { (uid("A"), uid("B")) } else { (uid("B"), uid("A")) };
    let next = match t[3] {
        3 => None,
        4 => Some(uid("dangling-space")),
        _ => Some(nxt),
    };
    // the partition's own area enters its U-value: it alternates too, and every other partition carries a window
    let mut x = wall("X", BoundaryType::INTERIOR, c, own, next, subject_geom(TILTS[t[0]]));
    if (t[1] + t[3] + t[7]) % 2 == 1 {
        x.geometry.polygon = rect(2.5, 2.0);
    }
    let xid = x.id;
    m.walls.push(x);
    if (t[0] + t[4]) % 2 == 1 {
        m.windows.push(window("X_v", uid("winc"), xid, None, 0.8, 0.6, 0.0));
    }
    m
}

/// GROUND: t = [tilt, stack, this kind, z, perim(D,Rn), slab size, ext share, slab ins]
fn model_gnd(t: &[usize], zs: &[f32], perims: &[(f32, f32)], slabs: &[(f32, f32)], shares: &[f32]) -> Model {
    let mut m = base(KINDS[t[2]]);
    let c = add_stack(&mut m, t[1]);
    m.spaces[0].z = zs[t[3]];
    m.meta.d_perim_insulation = perims[t[4]].0;
    m.meta.rn_perim_insulation = perims[t[4]].1;
    let (l, w) = slabs[t[5]];
    let share = shares[t[6]];
    let slab = if t[7] == 0 { uid("slab0") } else { uid("slab1") };
    let tilt = TILTS[t[0]];
    let is_bottom = crate::ind::tilt_class(tilt as f64) == crate::ind::TiltC::Bottom;
    // every other configuration lays the ground floor as three slabs: half of it, and two quarters of which one has
    // the other slab construction (two slabs share a construction, the third differs)
    let three = (t[3] + t[4] + t[6]) % 2 == 1;
    let other = if t[7] == 0 { uid("slab1") } else { uid("slab0") };
    if is_bottom {
        // the subject IS the slab
        m.walls.push(wall("X", BoundaryType::GROUND, c, uid("A"), None, geom(tilt, 0.0, None, rect(if three { l / 2.0 } else { l }, w))));
        if three {
            m.walls.push(wall("X2", BoundaryType::GROUND, c, uid("A"), None, geom(tilt, 0.0, None, rect(l / 4.0, w))));
            m.walls.push(wall("A_F3", BoundaryType::GROUND, other, uid("A"), None, geom(180.0, 0.0, None, rect(l / 4.0, w))));
        }
    } else {
        m.walls.push(wall("A_F", BoundaryType::GROUND, slab, uid("A"), None, geom(180.0, 0.0, None, rect(if three { l / 2.0 } else { l }, w))));
        if three {
            m.walls.push(wall("A_F2", BoundaryType::GROUND, slab, uid("A"), None, geom(180.0, 0.0, None, rect(l / 4.0, w))));
            m.walls.push(wall("A_F3", BoundaryType::GROUND, other, uid("A"), None, geom(180.0, 0.0, None, rect(l / 4.0, w))));
        }
    }
    // perimeter walls: share of exterior
    let b = |exposed: bool| if exposed { BoundaryType::EXTERIOR } else { BoundaryType::ADIABATIC };
    let (s_e, e_e, n_e, w_e) = if share >= 0.99 {
        (true, true, true, true)
    } else if share >= 0.49 {
        (true, false, true, false)
    } else if share >= 0.2 {
        (true, false, false, false)
    } else {
        (false, false, false, false)
    };
    m.walls.push(wall("A_S", b(s_e), uid("ext"), uid("A"), None, geom(90.0, 0.0, None, rect(l, 3.0))));
    m.walls.push(wall("A_E", b(e_e), uid("ext"), uid("A"), None, geom(90.0, 90.0, None, rect(w, 3.0))));
    m.walls.push(wall("A_N", b(n_e), uid("ext"), uid("A"), None, geom(90.0, 180.0, None, rect(l, 3.0))));
    m.walls.push(wall("A_W", b(w_e), uid("ext"), uid("A"), None, geom(90.0, -90.0, None, rect(w, 3.0))));
    m.walls.push(wall("A_R", BoundaryType::EXTERIOR, uid("slab1"), uid("A"), None, geom(0.0, 0.0, None, rect(l, w))));
    if !is_bottom {
        m.walls.push(wall("X", BoundaryType::GROUND, c, uid("A"), None, subject_geom(tilt)));
    }
    m
}

#[derive(Default)]
struct Acc {
    n: u64,
    nontriv: u64,
    outcomes: HashSet<u64>,
    branches: HashSet<String>,
}

fn check_wall(ctx: &Ctx, m: &Model, wname: &str, case: &dyn Fn() -> Value, acc: &mut Acc, tag: &str) -> Option<f32> {
    let w = m.walls.iter().find(|w| w.name == wname).unwrap();
    acc.n += 1;
    let got = match catch(std::panic::AssertUnwindSafe(|| w.u_value(m))) {
        Ok(g) => g,
        Err(p) => {
            ctx.violation(&format!("panic:{}", panic_key(&p)), &format!("Wall::u_value panicked: {}", p), json!({"case": case(), "model": serde_json::to_value(m).unwrap()}));
            return None;
        }
    };
    let exp = uref::u_ref(m, w);
    let tclass = crate::ind::tilt_class(w.geometry.tilt as f64);
    match (got, exp) {
        (None, None) => {}
        (Some(g), Some(iv)) => {
            acc.nontriv += 1;
            acc.branches.insert(format!("{:?}/{:?}/{}", w.bounds, tclass, tag));
            if !g.is_finite() || !iv.contains(g as f64) {
                // non-finite reference = degenerate (outside the verdict)
                if iv.nominal.is_finite() {
                    ctx.violation(
                        &format!("u_value:{:?}:{:?}{}", w.bounds, tclass, tag),
                        &format!("U={} expected {:.4} (interval [{:.4},{:.4}])", g, iv.nominal, iv.lo, iv.hi),
                        json!({"case": case(), "wall": wname, "model": serde_json::to_value(m).unwrap()}),
                    );
                }
            }
        }
        (g, e) => {
            ctx.violation(
                &format!("u_value:{:?}:{}", w.bounds, if g.is_some() { "value-where-none-expected" } else { "none-where-value-expected" }),
                &format!("U={:?} expected {:?}", g, e.map(|i| i.nominal)),
                json!({"case": case(), "wall": wname, "model": serde_json::to_value(m).unwrap()}),
            );
        }
    }
    acc.outcomes.insert(got.map_or(u64::MAX, |g| g.to_bits() as u64));
    if acc.n % ctx.tier.pick(4, 1) == 0 {
        check_props(ctx, m, case, acc);
        // the same elements stored in another order (walls reversed and rotated, spaces and windows reversed)
        let mut q = m.clone();
        q.walls.reverse();
        let k = q.walls.len() / 2;
        q.walls.rotate_left(k);
        q.spaces.reverse();
        q.windows.reverse();
        if let Some(w2) = q.walls.iter().find(|w| w.name == wname) {
            acc.n += 1;
            if let Ok(g2) = catch(std::panic::AssertUnwindSafe(|| w2.u_value(&q))) {
                // (the reference is taken on the re-ordered model: with several ground slabs in a space the characteristic
                // dimension is the first slab's - the open finding recorded under C08 - in the code and in the reference alike)
                let exp = uref::u_ref(&q, w2);
                let ok = match (g2, &exp) {
                    (None, None) => true,
                    (Some(g), Some(iv)) => !iv.nominal.is_finite() || (g.is_finite() && iv.contains(g as f64)),
                    _ => false,
                };
                if !ok {
                    ctx.violation(&format!("u_value:depends-on-element-order:{:?}", w.bounds), &format!("with the walls, spaces and windows stored in another order U={:?} (as given: {:?}; the standards give {:?})", g2, got, exp.as_ref().map(|i| (i.lo, i.hi))), json!({"case": case(), "wall": wname, "model": serde_json::to_value(&q).unwrap()}));
                }
            }
        }
    }
    got
}

/// second observation point: the U-value reported with the indicators, for every wall of the model (several walls share
/// a construction under different boundary kinds and tilts)
fn check_props(ctx: &Ctx, m: &Model, case: &dyn Fn() -> Value, acc: &mut Acc) {
    let ind = match catch(std::panic::AssertUnwindSafe(|| m.energy_indicators())) {
        Ok(i) => i,
        Err(_) => return, // totality is C14's question
    };
    for w in &m.walls {
        acc.n += 1;
        let Some(p) = ind.props.walls.get(&w.id) else { continue };
        let exp = uref::u_ref(m, w);
        let ok = match (p.u_value, &exp) {
            (None, None) => true,
            (Some(g), Some(iv)) => !iv.nominal.is_finite() || (g.is_finite() && iv.contains(g as f64)),
            _ => false,
        };
        if !ok {
            ctx.violation(
                &format!("props.walls.u_value:{:?}:{:?}", w.bounds, crate::ind::tilt_class(w.geometry.tilt as f64)),
                &format!("indicators report U={:?} for wall {} but the standards give {:?}", p.u_value, w.name, exp.map(|i| (i.lo, i.hi))),
                json!({"case": case(), "wall": w.name, "model": serde_json::to_value(m).unwrap()}),
            );
        }
    }
}

/// monotonicity: one more layer / one layer doubled never increases U (air-contact elements and partitions)
fn check_monotone(ctx: &Ctx, m: &Model, u0: Option<f32>, case: &dyn Fn() -> Value, acc: &mut Acc) {
    let Some(u0) = u0 else { return };
    let Some(ci) = m.cons.wallcons.iter().position(|c| c.name == "subject-cons") else { return };
    let variants: Vec<(&str, Vec<Layer>)> = {
        let l = &m.cons.wallcons[ci].layers;
        let mut v = vec![];
        let mut a = l.clone();
        a.push(Layer { material: uid("xps"), e: 0.03, ..Default::default() });
        v.push(("extra-layer", a));
        let mut b = l.clone();
        b.insert(0, Layer { material: uid("rair"), e: 0.0, ..Default::default() });
        v.push(("extra-resistance-layer", b));
        if !l.is_empty() {
            let mut c = l.clone();
            c[0].e *= 2.0;
            v.push(("first-layer-doubled", c));
        }
        v
    };
    for (name, layers) in variants {
        let mut q = m.clone();
        q.cons.wallcons[ci].layers = layers;
        let w = q.walls.iter().find(|w| w.name == "X").unwrap();
        acc.n += 1;
        if let Ok(Some(u1)) = catch(std::panic::AssertUnwindSafe(|| w.u_value(&q))) {
            if u1 > u0 + 1e-6 {
                ctx.violation(&format!("u_value:not-monotone:{:?}", w.bounds), &format!("U rises from {} to {} with {}", u0, u1, name), json!({"case": case(), "variant": name, "model": serde_json::to_value(m).unwrap()}));
            }
        }
    }
}

pub fn run(ctx: &Ctx) -> i32 {
    let nst = 10;
    let mut accs: Vec<Acc> = vec![];
    // EXTERIOR / ADIABATIC
    for (bi, b) in [BoundaryType::EXTERIOR, BoundaryType::ADIABATIC].iter().enumerate() {
        let g = Grid::new(&[("tilt", TILTS.len()), ("stack", nst), ("kind", 3)]);
        accs.extend(par_fold(g.size(), |i, acc: &mut Acc| {
            let t = g.unrank(i);
            let m = model_ext(&t, *b);
            let case = || json!({"bounds": format!("{:?}", b), "tuple": g.describe(&t)});
            let u = check_wall(ctx, &m, "X", &case, acc, "");
            check_monotone(ctx, &m, u, &case, acc);
        }));
        if bi == 0 {
            ctx.sample(json!({"bounds": "EXTERIOR", "tuple": g.describe(&g.unrank(100))}));
        }
    }
    // INTERIOR
    let zs_int: Vec<f32> = vec![0.0, -0.005, -1.2, -3.5];
    let g = Grid::new(&[("tilt", TILTS.len()), ("stack", nst), ("this_kind", 3), ("next{C,U,N,None,dangling}", 5), ("n_v{Some,None}", 2), ("global_vent{Some,None}", 2), ("slab_ins", 2), ("z_next", zs_int.len()), ("owner{A,B}", 2)]);
    accs.extend(par_fold(g.size(), |i, acc: &mut Acc| {
        let t = g.unrank(i);
        let m = model_int(&t, &zs_int);
        let case = || json!({"bounds": "INTERIOR", "tuple": g.describe(&t)});
        let u = check_wall(ctx, &m, "X", &case, acc, if t[3] < 3 && (KINDS[t[2]] == SpaceType::CONDITIONED) != (KINDS[t[3]] == SpaceType::CONDITIONED) { ":cond-uncond" } else { "" });
        // monotonicity where forced: explicit n_v on the unconditioned side
        if t[4] == 0 {
            check_monotone(ctx, &m, u, &case, acc);
        }
        // the envelope elements of the neighbour are checked too (ground walls/slabs of B)
        if i % 16 == 0 {
            for wn in ["B_F", "B_W", "B_S", "A_F"] {
                if m.walls.iter().any(|w| w.name == wn) {
                    check_wall(ctx, &m, wn, &case, acc, ":context");
                }
            }
        }
    }));
    ctx.sample(json!({"bounds": "INTERIOR", "tuple": g.describe(&g.unrank(g.size() / 2 + 11))}));
    // GROUND
    let zs: Vec<f32> = ctx.tier.pick(vec![0.0, -0.005, -0.5, -1.2, -2.9, -3.5], vec![0.0, -0.005, -0.009, -0.011, -0.5, -1.2, -2.5, -2.9, -3.0, -3.5, -6.0]);
    let perims: Vec<(f32, f32)> = vec![(0.0, 0.0), (1.0, 1.5), (0.5, 0.5), (2.0, 3.0), (1.0, 0.0), (0.0, 1.5)];
    let slabs: Vec<(f32, f32)> = ctx.tier.pick(vec![(4.0, 4.0), (20.0, 5.0), (10.0, 10.0), (2.0, 30.0)], vec![(4.0, 4.0), (20.0, 5.0), (10.0, 10.0), (2.0, 30.0), (1.0, 1.0), (50.0, 40.0)]);
    let shares: Vec<f32> = vec![1.0, 0.5, 0.25, 0.0];
    let g = Grid::new(&[("tilt", TILTS.len()), ("stack", nst), ("kind", 3), ("z", zs.len()), ("perim_ins(D,Rn)", perims.len()), ("slab", slabs.len()), ("ext_share", shares.len()), ("slab_ins", 2)]);
    accs.extend(par_fold(g.size(), |i, acc: &mut Acc| {
        let t = g.unrank(i);
        let is_bottom = crate::ind::tilt_class(TILTS[t[0]] as f64) == crate::ind::TiltC::Bottom;
        if is_bottom && t[7] == 1 {
            return; // slab insulation dimension is the subject's own stack when the subject is the slab
        }
        let m = model_gnd(&t, &zs, &perims, &slabs, &shares);
        let case = || json!({"bounds": "GROUND", "tuple": g.describe(&t), "z": zs[t[3]], "perim": perims[t[4]], "slab": slabs[t[5]], "share": shares[t[6]]});
        check_wall(ctx, &m, "X", &case, acc, "");
    }));
    ctx.sample(json!({"bounds": "GROUND", "tuple": g.describe(&g.unrank(g.size() / 3))}));
    // every wall of every shipped model
    let mut acc = Acc::default();
    for (name, m) in shipped_models() {
        for w in &m.walls {
            let case = || json!({"file": name, "wall": w.name});
            check_wall(ctx, &m, &w.name, &case, &mut acc, ":shipped");
        }
    }
    accs.push(acc);
    let mut branches: HashSet<String> = HashSet::new();
    for a in &accs {
        ctx.eval(a.n);
        ctx.nontriv(a.nontriv);
        ctx.outcome_merge(&a.outcomes);
        branches.extend(a.branches.iter().cloned());
    }
    let mut b: Vec<_> = branches.into_iter().collect();
    b.sort();
    ctx.note("branches_reached", json!(b));
    ctx.finish(
        "model_checking",
        "dependent full products per boundary kind: EXTERIOR/ADIABATIC: tilt{0,45,60,60.01,90,119.99,120,180,270,200,330} x layer stack{[], [ins], [R-only], [ins,R-only], [massive], missing material, lambda=0, missing construction (+2 in thorough)} x space kind(3); INTERIOR: x neighbour{conditioned, unconditioned, uninhabited, none, dangling} x n_v{given, not} x building ventilation{given, not} x slab insulation x neighbour depth x owner side (the height of the conditioned space alternates 3.0 / 4.5 m, the partition's own size 4x3 / 2.5x2 m and a window in it, with the configuration index; every fifth neighbour is sealed: no element towards outside or ground and n_v = 0); GROUND: x burial depth z x perimeter insulation (D,Rn) x slab size x exposed-perimeter share x slab insulation (the subject is the slab itself for floor tilts; every other configuration lays the ground floor as three slabs, two sharing a construction); + monotonicity variants (extra layer, extra R-only layer, first layer doubled) for air-contact elements and partitions; + every wall of the 7 shipped models; for every 4th model (all in thorough) also the U-value reported in EnergyIndicators.props.walls for every wall of the model, and the subject's U-value with walls, spaces and windows stored in another order (constructions shared between boundary kinds and tilts); oracle: f64 formulas of EN ISO 6946/13370/13789 with the rounding-interval rule; non-trivial = a U-value is defined",
        true,
        json!({}),
    )
}
