//! C04 — the JSON model format is lossless, idempotent and stable
//! E1 over JSON-level substitutions on a model in which every field is present and non-default:
//! every leaf x type alphabet (singles), all pairs of leaf substitutions on a compact model, all 2^11 x 3
//! empty/non-empty collection patterns, the f32 number-leaf sweep, shipped files and converted corpus.

use crate::common::*;
use crate::gen::*;
use nalgebra::point;
use bemodel::*;
use serde_json::{json, Value};
use std::collections::HashSet;

/// a model with every field present and different from every default; 2 elements per collection
fn full_model(two: bool) -> Model {
    let mut m = model_with_meta(
        Meta {
            name: "Proyecto \"ñ\" € 𝜆=0.034 🏠".into(),
            is_new_building: false,
            is_dwelling: false,
            num_dwellings: 7,
            climate: zone("B3"),
            global_ventilation_l_s: Some(12.5),
            n50_test_ach: Some(3.25),
            d_perim_insulation: 0.75,
            rn_perim_insulation: 1.25, ..Default::default()
        },
    );
    let n = if two { 2 } else { 1 };
    for i in 0..n {
        let mut s = space(&format!("s{i}"), SpaceType::UNCONDITIONED, false, 2.75);
        s.multiplier = 2.5;
        s.z = -1.5;
        s.loads = Some(uid("l0"));
        s.thermostat = Some(uid("t0"));
        s.n_v = Some(0.35);
        s.illuminance = Some(250.5);
        m.spaces.push(s);
        let mut w = wall(&format!("w{i}"), BoundaryType::INTERIOR, uid("wc0"), uid("s0"), Some(uid("s1")), geom(45.5, -120.25, Some([1.5, -2.5, 3.25]), rect(4.5, 2.75)));
        if i == 1 {
            w.bounds = BoundaryType::GROUND;
            // a closed ring with a repeated corner: every written vertex is a vertex of the model
            w.geometry.polygon = vec![point![0.0, 0.0], point![4.5, 0.0], point![4.5, 0.0], point![4.5, 2.75], point![0.0, 2.75], point![0.0, 0.0]];
        }
        m.walls.push(w);
        m.windows.push(window(&format!("v{i}"), uid("kc0"), uid("w0"), Some([0.5, 0.75]), 1.25, 1.5, 0.2));
        m.thermal_bridges.push(ThermalBridge { id: uid(&format!("tb{i}")), name: format!("tb{i}"), kind: ThermalBridgeKind::PILLAR, l: 3.5, psi: 0.15, ..Default::default() });
        m.shades.push(Shade { id: uid(&format!("sh{i}")), name: format!("sh{i}"), geometry: geom(90.0, 15.0, Some([0.5, 0.5, 0.5]), if i == 1 { vec![point![0.0, 0.0], point![2.0, 0.0], point![2.0, 1.0], point![2.0, 1.0], point![0.0, 1.0]] } else { rect(2.0, 1.0) }), ..Default::default() });
        // (the second construction repeats a layer, the second yearly / weekly schedule repeats an entry: equal neighbours in a list are still two elements)
        m.cons.wallcons.push(WallCons { id: uid(&format!("wc{i}")), name: format!("wc{i}"), layers: if i == 1 { vec![Layer { material: uid("m0"), e: 0.125 }, Layer { material: uid("m0"), e: 0.125 }, Layer { material: uid("m1"), e: 0.02 }] } else { vec![Layer { material: uid("m0"), e: 0.125 }, Layer { material: uid("m1"), e: 0.02 }] }, absorptance: 0.45, ..Default::default() });
        m.cons.wincons.push(wincons(&format!("kc{i}"), uid("g0"), uid("f0"), 0.35, 12.5, Some(0.25), 9.5));
        m.cons.glasses.push(glass(&format!("g{i}"), 1.25, 0.55));
        m.cons.frames.push(Frame { id: uid(&format!("f{i}")), name: format!("f{i}"), u_value: 2.25, absorptivity: 0.35, ..Default::default() });
        m.schedules.year.push(Schedule { id: uid(&format!("y{i}")), name: format!("y{i}"), values: if i == 1 { vec![(uid("k0"), 100), (uid("k0"), 100), (uid("k1"), 165)] } else { vec![(uid("k0"), 200), (uid("k1"), 165)] }, ..Default::default() });
        m.schedules.week.push(ScheduleWeek { id: uid(&format!("k{i}")), name: format!("k{i}"), values: if i == 1 { vec![(uid("d0"), 2), (uid("d0"), 2), (uid("d1"), 3)] } else { vec![(uid("d0"), 5), (uid("d1"), 2)] }, ..Default::default() });
        m.schedules.day.push(ScheduleDay { id: uid(&format!("d{i}")), name: format!("d{i}"), values: vec![0.25, 0.5], ..Default::default() });
        m.loads.push(SpaceLoads { id: uid(&format!("l{i}")), name: format!("l{i}"), area_per_person: 12.5, people_schedule: Some(uid("y0")), people_sensible: 6.25, people_latent: 3.75, equipment: 4.5, equipment_schedule: Some(uid("y1")), lighting: 7.5, lighting_schedule: Some(uid("y0")), ..Default::default() });
        m.thermostats.push(Thermostat { id: uid(&format!("t{i}")), name: format!("t{i}"), temp_max: Some(uid("y0")), temp_min: Some(uid("y1")), ..Default::default() });
        m.overrides.walls.insert(uid(&format!("w{i}")), WallPropsOverrides { u_value: Some(0.35), ..Default::default() });
        m.overrides.windows.insert(uid(&format!("v{i}")), WinPropsOverrides { u_value: Some(1.75), f_shobst: Some(0.65), ..Default::default() });
    }
    m.cons.materials.push(Material { id: uid("m0"), name: "m0".into(), properties: MatProps::Detailed { conductivity: 0.045, density: 35.5, specific_heat: 1450.0, vapour_diff: Some(60.5) }, ..Default::default() });
    m.cons.materials.push(Material { id: uid("m1"), name: "m1".into(), properties: MatProps::Resistance { resistance: 0.185, vapour_diff: Some(1.5) }, ..Default::default() });
    m.extra = Some(vec![ExtraData { name: "w0".into(), bounds: BoundaryType::ADIABATIC, spacetype: SpaceType::UNINHABITED, nextspace: Some(uid("s1")), nextspacetype: Some(SpaceType::UNCONDITIONED), tilt: Tilt::BOTTOM, cons: uid("wc0"), u: 0.35, computed_u: 0.45 }]);
    m
}

#[derive(Clone, Debug)]
enum PE {
    K(String),
    I(usize),
}

#[derive(Clone, Debug)]
struct Sub {
    path: Vec<PE>,
    what: String,
    value: Option<Value>, // None => remove the key / item
}

fn leaf_subs(v: &Value) -> Vec<Sub> {
    let mut out = vec![];
    fn rec(v: &Value, path: &mut Vec<PE>, out: &mut Vec<Sub>) {
        fn push_to(out: &mut Vec<Sub>, what: &str, value: Option<Value>, path: &Vec<PE>) {
            out.push(Sub { path: path.clone(), what: what.to_string(), value });
        }
        macro_rules! push {
            ($w:expr, $v:expr, $p:expr) => {
                push_to(out, $w, $v, $p)
            };
        }
        match v {
            Value::Object(m) => {
                for (k, c) in m {
                    path.push(PE::K(k.clone()));
                    push!("remove-key", None, path);
                    push!("null", Some(Value::Null), path);
                    rec(c, path, out);
                    path.pop();
                }
            }
            Value::Array(a) => {
                push!("empty-array", Some(json!([])), path);
                if a.len() > 1 {
                    push!("one-element", Some(json!([a[0]])), path);
                }
                for (i, c) in a.iter().enumerate() {
                    path.push(PE::I(i));
                    rec(c, path, out);
                    path.pop();
                }
            }
            Value::Number(_) => {
                for (w, val) in [("0", json!(0)), ("0.0", json!(0.0)), ("1", json!(1)), ("1.0", json!(1.0)), ("ugly", json!(0.1234567)), ("tiny-negative", json!(-3.5e-7)), ("huge", json!(1e30)), ("0.7", json!(0.7)), ("0.2", json!(0.2)), ("3.0", json!(3.0)), ("50.0", json!(50.0)), ("just-below-1", json!(0.99999994f32)), ("just-above-1", json!(1.0000001f32)), ("tiny-positive", json!(3e-8f32)), ("smallest-normal", json!(f32::MIN_POSITIVE))] {
                    push!(w, Some(val), path);
                }
            }
            Value::Bool(_) => {
                push!("true", Some(json!(true)), path);
                push!("false", Some(json!(false)), path);
            }
            Value::String(s) => {
                if s.len() == 36 && Uuid::parse_str(s).is_ok() {
                    push!("nil-id", Some(json!("00000000-0000-0000-0000-000000000000")), path);
                } else {
                    push!("empty-string", Some(json!("")), path);
                    push!("ugly-string", Some(json!("línea\n\"comillas\" \\ \u{1F3E0} <&>")), path);
                    // every enum variant reachable through its string
                    for e in ["EXTERIOR", "INTERIOR", "GROUND", "ADIABATIC", "CONDITIONED", "UNCONDITIONED", "UNINHABITED", "TOP", "BOTTOM", "SIDE", "ROOF", "BALCONY", "CORNER", "INTERMEDIATEFLOOR", "INTERNALWALL", "GROUNDFLOOR", "PILLAR", "WINDOW", "GENERIC", "D3", "A1c", "Alfa4c", "E1"] {
                        push!(e, Some(json!(e)), path);
                    }
                }
            }
            Value::Null => {}
        }
    }
    rec(v, &mut vec![], &mut out);
    out
}

fn apply(base: &Value, s: &Sub) -> Value {
    let mut v = base.clone();
    fn nav<'a>(v: &'a mut Value, path: &[PE]) -> &'a mut Value {
        let mut cur = v;
        for p in path {
            cur = match p {
                PE::K(k) => cur.get_mut(k.as_str()).unwrap(),
                PE::I(i) => cur.get_mut(*i).unwrap(),
            };
        }
        cur
    }
    match &s.value {
        Some(val) => *nav(&mut v, &s.path) = val.clone(),
        None => {
            let (last, pp) = s.path.split_last().unwrap();
            let parent = nav(&mut v, pp);
            match last {
                PE::K(k) => {
                    parent.as_object_mut().unwrap().remove(k);
                }
                PE::I(i) => {
                    parent.as_array_mut().unwrap().remove(*i);
                }
            }
        }
    }
    v
}

fn has_special_floats(s: &str) -> bool {
    s.contains("NaN") || s.contains("inf") || s.contains("-0.0")
}

/// The oracle. Returns an outcome hash, or None if the document does not load (not a model).
fn roundtrip(ctx: &Ctx, doc: &Value, case: &dyn Fn() -> Value) -> Option<u64> {
    roundtrip_x(ctx, doc, case, false)
}

fn roundtrip_x(ctx: &Ctx, doc: &Value, case: &dyn Fn() -> Value, exact: bool) -> Option<u64> {
    let m: Model = serde_json::from_value(doc.clone()).ok()?;
    let dbg = format!("{:?}", m);
    if has_special_floats(&dbg) {
        return None; // -0.0 / NaN are outside the statement (JSON has no NaN; -0.0 == 0.0 is skipped by design)
    }
    let j1 = match m.as_json() {
        Ok(j) => j,
        Err(e) => {
            ctx.violation("as_json:error", &format!("serialising a loaded model failed: {}", e), case());
            return Some(0);
        }
    };
    let m2 = match Model::from_json(&j1) {
        Ok(m2) => m2,
        Err(e) => {
            ctx.violation("from_json:own-output-rejected", &format!("the model's own JSON does not load back: {}", e), json!({"case": case(), "json": j1}));
            return Some(1);
        }
    };
    let dbg2 = format!("{:?}", m2);
    if dbg2 != dbg {
        // locate first difference
        let pos = dbg.bytes().zip(dbg2.bytes()).position(|(a, b)| a != b).unwrap_or(dbg.len().min(dbg2.len()));
        let ctxt = |s: &str| s[pos.saturating_sub(60)..(pos + 40).min(s.len())].to_string();
        let field = field_before(&dbg, pos);
        ctx.violation(&format!("roundtrip:field-changed:{}", field), &format!("...{} | became | ...{}", ctxt(&dbg), ctxt(&dbg2)), json!({"case": case(), "json": j1}));
        return Some(2);
    }
    // the document itself must come back: when no value of the document is a default (the base documents and the
    // substitutions by non-default values), serialising the loaded model gives the same JSON value
    if exact {
        let v1: Value = serde_json::from_str(&j1).unwrap_or(Value::Null);
        let mut diffs = vec![];
        values_equal_f32(doc, &v1, "", &mut diffs);
        if !diffs.is_empty() {
            let field = diffs[0].split(' ').next().unwrap_or("").rsplit('.').next().unwrap_or("").split('[').next().unwrap_or("").to_string();
            ctx.violation(&format!("load:value-lost-or-changed:{}", field), &format!("the document does not come back from load + save: {}", diffs.iter().take(3).cloned().collect::<Vec<_>>().join("; ")), json!({"case": case(), "json": j1}));
            return Some(3);
        }
    }
    let j2 = m2.as_json().unwrap_or_default();
    if j2 != j1 {
        ctx.violation("roundtrip:not-idempotent", "second serialisation differs from the first", json!({"case": case(), "json1": j1, "json2": j2}));
    }
    Some(hash64(&j1.len()) ^ hash64(&dbg.len()))
}

fn field_before(dbg: &str, pos: usize) -> String {
    // last `name:` before pos
    let s = &dbg[..pos.min(dbg.len())];
    let mut end = s.len();
    while let Some(c) = s[..end].rfind(": ") {
        let start = s[..c].rfind(|ch: char| !(ch.is_alphanumeric() || ch == '_')).map_or(0, |i| i + 1);
        let name = &s[start..c];
        if !name.is_empty() && name.chars().all(|ch| ch.is_alphanumeric() || ch == '_') && !name.chars().next().unwrap().is_ascii_digit() {
            return name.to_string();
        }
        end = c;
    }
    "?".into()
}

fn values_equal_f32(a: &Value, b: &Value, path: &str, diffs: &mut Vec<String>) {
    match (a, b) {
        (Value::Object(x), Value::Object(y)) => {
            for (k, v) in x {
                match y.get(k) {
                    Some(w) => values_equal_f32(v, w, &format!("{}.{}", path, k), diffs),
                    None => diffs.push(format!("{}.{} dropped", path, k)),
                }
            }
            for k in y.keys() {
                if !x.contains_key(k) {
                    diffs.push(format!("{}.{} added", path, k));
                }
            }
        }
        (Value::Array(x), Value::Array(y)) => {
            if x.len() != y.len() {
                diffs.push(format!("{} length {} -> {}", path, x.len(), y.len()));
            } else {
                for (i, (v, w)) in x.iter().zip(y).enumerate() {
                    values_equal_f32(v, w, &format!("{}[{}]", path, i), diffs);
                }
            }
        }
        (Value::Number(x), Value::Number(y)) => {
            let (p, q) = (x.as_f64().unwrap_or(f64::NAN), y.as_f64().unwrap_or(f64::NAN));
            if (p as f32) != (q as f32) {
                diffs.push(format!("{} {} -> {}", path, x, y));
            }
        }
        _ => {
            if a != b {
                diffs.push(format!("{} {} -> {}", path, a, b));
            }
        }
    }
}

pub fn run(ctx: &Ctx) -> i32 {
    let full = serde_json::to_value(&full_model(true)).unwrap();
    let compact = serde_json::to_value(&full_model(false)).unwrap();
    let mut loaded = 0u64;
    // the base models themselves
    for (n, d) in [("full", &full), ("compact", &compact)] {
        ctx.eval(1);
        if roundtrip_x(ctx, d, &|| json!({"part": "base", "which": n}), true).is_some() {
            loaded += 1;
        }
    }
    // every variant of every enumeration, set on the Rust side (a variant no shipped file and no exporter uses is still a
    // value of the format)
    {
        use ThermalBridgeKind::*;
        let mut variants: Vec<(String, Model)> = vec![];
        for k in [ROOF, BALCONY, CORNER, INTERMEDIATEFLOOR, INTERNALWALL, GROUNDFLOOR, PILLAR, WINDOW, GENERIC] {
            let mut m = full_model(true);
            m.thermal_bridges[0].kind = k;
            variants.push((format!("thermal bridge kind {:?}", k), m));
        }
        for b in [BoundaryType::EXTERIOR, BoundaryType::INTERIOR, BoundaryType::GROUND, BoundaryType::ADIABATIC] {
            let mut m = full_model(true);
            m.walls[0].bounds = b;
            if let Some(e) = m.extra.as_mut() {
                e[0].bounds = b;
            }
            variants.push((format!("boundary {:?}", b), m));
        }
        for k in [SpaceType::CONDITIONED, SpaceType::UNCONDITIONED, SpaceType::UNINHABITED] {
            // (with the flag that is omitted at its default and with the one that is written: the default of a field does
            // not depend on its neighbours)
            for inside in [true, false] {
                let mut m = full_model(true);
                m.spaces[0].kind = k;
                m.spaces[0].inside_tenv = inside;
                if let Some(e) = m.extra.as_mut() {
                    e[0].spacetype = k;
                    e[0].nextspacetype = Some(k);
                }
                variants.push((format!("space kind {:?}, inside the envelope: {}", k, inside), m));
            }
        }
        for t in [Tilt::TOP, Tilt::SIDE, Tilt::BOTTOM] {
            let mut m = full_model(true);
            if let Some(e) = m.extra.as_mut() {
                e[0].tilt = t;
            }
            variants.push((format!("tilt class {:?}", t), m));
        }
        for z in ALL_ZONES {
            let mut m = full_model(true);
            m.meta.climate = zone(z);
            variants.push((format!("climate zone {}", z), m));
        }
        for (what, m) in variants {
            ctx.eval(1);
            let before = format!("{:?}", m);
            let d = serde_json::to_value(&m).unwrap();
            if roundtrip_x(ctx, &d, &|| json!({"part": "enumeration variant", "variant": what}), true).is_some() {
                loaded += 1;
            }
            // and against the value built on the Rust side (not only against the document)
            let back = m.as_json().ok().and_then(|j| Model::from_json(&j).ok()).map(|q| format!("{:?}", q));
            if back.as_deref() != Some(before.as_str()) {
                ctx.violation(&format!("roundtrip:enumeration-variant:{}", what.split(' ').next().unwrap_or("")), &format!("a model with {} does not come back equal from its own JSON", what), json!({"part": "enumeration variant", "variant": what}));
            }
        }
    }
    // singles on the full model
    let subs = leaf_subs(&full);
    #[derive(Default)]
    struct Acc {
        n: u64,
        loaded: u64,
        outcomes: HashSet<u64>,
    }
    let accs = par_fold(subs.len() as u64, |i, acc: &mut Acc| {
        let s = &subs[i as usize];
        let d = apply(&full, s);
        acc.n += 1;
        let exact = matches!(s.what.as_str(), "ugly" | "tiny-negative" | "huge" | "0.7" | "0.2" | "3.0" | "50.0" | "ugly-string");
        if let Some(o) = roundtrip_x(ctx, &d, &|| json!({"part": "single-substitution", "sub": format!("{:?}", s), "doc": d}), exact) {
            acc.loaded += 1;
            acc.outcomes.insert(o);
        }
    });
    // pairs on the compact model
    let csubs = leaf_subs(&compact);
    let stride = ctx.tier.pick(7u64, 1u64);
    let np = (csubs.len() * csubs.len()) as u64;
    let accs2 = par_fold(np / stride, |k, acc: &mut Acc| {
        let i = k * stride + (ctx.seed % stride);
        let (a, b) = (&csubs[(i as usize) / csubs.len()], &csubs[(i as usize) % csubs.len()]);
        // b must still be addressable after a: skip when a removes/replaces an ancestor or sibling index
        let pa = format!("{:?}", a.path);
        let pb = format!("{:?}", b.path);
        if pa == pb || pb.starts_with(pa.trim_end_matches(']')) || pa.starts_with(pb.trim_end_matches(']')) {
            return;
        }
        if a.value.is_none() && matches!(a.path.last(), Some(PE::I(_))) {
            return;
        }
        let d1 = apply(&compact, a);
        let d = apply(&d1, b);
        acc.n += 1;
        if let Some(o) = roundtrip(ctx, &d, &|| json!({"part": "pair-substitution", "a": format!("{:?}", a), "b": format!("{:?}", b), "doc": d})) {
            acc.loaded += 1;
            acc.outcomes.insert(o);
        }
    });
    // collections present/absent: 2^11 x extra{None, [], [x]}
    let colls = ["spaces", "walls", "windows", "thermal_bridges", "shades", "cons", "schedules", "loads", "thermostats", "overrides", "meta"];
    let accs3 = par_fold(2048 * 3, |i, acc: &mut Acc| {
        let mask = i / 3;
        let mut d = full.clone();
        for (b, c) in colls.iter().enumerate() {
            if mask & (1 << b) != 0 {
                d.as_object_mut().unwrap().remove(*c);
            }
        }
        match i % 3 {
            0 => {
                d.as_object_mut().unwrap().remove("extra");
            }
            1 => d["extra"] = json!([]),
            _ => {}
        }
        acc.n += 1;
        if let Some(o) = roundtrip(ctx, &d, &|| json!({"part": "collections", "removed_mask": mask, "extra_variant": i % 3})) {
            acc.loaded += 1;
            acc.outcomes.insert(o);
        } else {
            ctx.violation("from_value:collection-pattern-rejected", "a model without some top-level collections does not load", json!({"part": "collections", "removed_mask": mask}));
        }
    });
    // presence patterns inside the nested databases (each has its own hand-written is_empty): cons (5 lists),
    // schedules (3), overrides (2), with the rest of the model present or absent
    let mut acc4 = Acc::default();
    for (key, subs) in [("cons", vec!["wallcons", "wincons", "materials", "glasses", "frames"]), ("schedules", vec!["year", "week", "day"]), ("overrides", vec!["walls", "windows"])] {
        for mask in 0..(1u32 << subs.len()) {
            for rest in 0..2 {
                let mut d = if rest == 0 { full.clone() } else { json!({"meta": full["meta"].clone(), key: full[key].clone()}) };
                for (b, sname) in subs.iter().enumerate() {
                    if mask & (1 << b) != 0 {
                        d[key].as_object_mut().unwrap().remove(*sname);
                    }
                }
                acc4.n += 1;
                if let Some(o) = roundtrip(ctx, &d, &|| json!({"part": "nested-collections", "database": key, "removed_mask": mask, "rest_of_model_present": rest == 0, "doc": d})) {
                    acc4.loaded += 1;
                    acc4.outcomes.insert(o);
                }
            }
        }
    }
    let accs4 = vec![acc4];
    for a in accs.iter().chain(accs2.iter()).chain(accs3.iter()).chain(accs4.iter()) {
        ctx.eval(a.n);
        loaded += a.loaded;
        ctx.outcome_merge(&a.outcomes);
    }
    ctx.note("substitutions", json!({"leaf_substitutions_full": subs.len(), "leaf_substitutions_compact": csubs.len(), "pairs_enumerated": np / stride, "pair_stride": stride}));
    ctx.sample(json!({"part": "single-substitution", "sub": format!("{:?}", subs[subs.len() / 2])}));
    ctx.sample(json!({"part": "pair-substitution", "a": format!("{:?}", csubs[10]), "b": format!("{:?}", csubs[csubs.len() - 5])}));

    // number-leaf sweep: f32 bit patterns through a plain field and through the flatten+untagged path
    let stride: u64 = ctx.tier.pick(4099, 1);
    let total: u64 = 1 << 32;
    let nsw = total / stride;
    let off = if stride > 1 { ctx.seed % stride } else { 0 };
    #[derive(Default)]
    struct Sw {
        n: u64,
    }
    let sw = par_fold(nsw, |k, a: &mut Sw| {
        let bits = (k * stride + off) as u32;
        let x = f32::from_bits(bits);
        if !x.is_finite() || (x == 0.0 && x.is_sign_negative()) {
            return;
        }
        a.n += 1;
        // (i) plain field: ThermalBridge.psi / Glass.u_value
        let g = Glass { id: Uuid::nil(), name: String::new(), u_value: x, g_gln: x, ..Default::default() };
        let j = serde_json::to_string(&g).unwrap();
        let g2: Glass = match serde_json::from_str(&j) {
            Ok(g) => g,
            Err(e) => {
                ctx.violation("f32-sweep:plain:does-not-load", &format!("{} -> {}: {}", x, j, e), json!({"bits": bits}));
                return;
            }
        };
        if g2.u_value.to_bits() != bits || g2.g_gln.to_bits() != bits {
            ctx.violation("f32-sweep:plain:value-changed", &format!("{:?} (bits {:#x}) -> {} -> {:?}", x, bits, j, g2.u_value), json!({"bits": bits, "json": j}));
        }
        // (ii) flatten + untagged: Material.conductivity / resistance
        for variant in 0..2 {
            let mat = Material { id: Uuid::nil(), name: String::new(), properties: if variant == 0 { MatProps::Detailed { conductivity: x, density: x, specific_heat: 1000.0, vapour_diff: Some(x) } } else { MatProps::Resistance { resistance: x, vapour_diff: None } }, ..Default::default() };
            let j = serde_json::to_string(&mat).unwrap();
            match serde_json::from_str::<Material>(&j) {
                Ok(m2) => {
                    let ok = match (m2.properties, variant) {
                        (MatProps::Detailed { conductivity, density, vapour_diff, .. }, 0) => conductivity.to_bits() == bits && density.to_bits() == bits && vapour_diff.map(f32::to_bits) == Some(bits),
                        (MatProps::Resistance { resistance, .. }, 1) => resistance.to_bits() == bits,
                        _ => false,
                    };
                    if !ok {
                        ctx.violation("f32-sweep:flatten-untagged:value-changed", &format!("{:?} (bits {:#x}) -> {} -> {:?}", x, bits, j, m2.properties), json!({"bits": bits, "json": j}));
                    }
                }
                Err(e) => ctx.violation("f32-sweep:flatten-untagged:does-not-load", &format!("{} -> {}: {}", x, j, e), json!({"bits": bits})),
            }
        }
    });
    let nswept: u64 = sw.iter().map(|s| s.n).sum();
    ctx.eval(nswept);
    ctx.note("f32_sweep", json!({"finite_patterns_checked": nswept, "stride": stride, "offset": off, "exhaustive": stride == 1}));

    // shipped files: same JSON value after load + re-serialise
    let dir = format!("{}/bemodel/tests/data", repo_dir());
    let mut names: Vec<String> = std::fs::read_dir(&dir).unwrap().filter_map(|e| e.ok()).map(|e| e.file_name().to_string_lossy().to_string()).filter(|n| n.ends_with(".json")).collect();
    names.sort();
    for n in &names {
        ctx.eval(1);
        let txt = std::fs::read_to_string(format!("{}/{}", dir, n)).unwrap();
        let v0: Value = serde_json::from_str(&txt).unwrap();
        match Model::from_json(&txt) {
            Err(e) => ctx.violation("shipped:does-not-load", &format!("{}: {}", n, e), json!({"file": n})),
            Ok(m) => {
                loaded += 1;
                let v1: Value = serde_json::from_str(&m.as_json().unwrap()).unwrap();
                let mut diffs = vec![];
                values_equal_f32(&v0, &v1, "", &mut diffs);
                if !diffs.is_empty() {
                    ctx.violation("shipped:value-changed", &format!("{}: {} differences, first: {}", n, diffs.len(), diffs[0]), json!({"file": n, "diffs": diffs.iter().take(20).collect::<Vec<_>>()}));
                }
                roundtrip(ctx, &v0, &|| json!({"part": "shipped", "file": n}));
            }
        }
    }
    // converted corpus
    let corpus = crate::corpus::converted_corpus(ctx.tier == Tier::Thorough);
    for (n, m) in &corpus {
        ctx.eval(1);
        let d = serde_json::to_value(m).unwrap();
        if roundtrip(ctx, &d, &|| json!({"part": "converted", "file": n})).is_some() {
            loaded += 1;
        }
    }
    ctx.note("files", json!({"shipped": names.len(), "converted_corpus": corpus.len()}));
    ctx.nontriv(loaded);
    ctx.finish(
        "model_checking",
        "JSON-level substitutions on a model whose every field is present and non-default (2 elements per collection, both MatProps variants, all options Some): every leaf x its type alphabet (numbers{0,0.0,1,1.0,0.1234567,-3.5e-7,1e30,0.7,0.2,3.0,50.0}, bools, strings{empty, quotes/UTF-8/escapes, every enum variant name}, ids->nil, key removed, null, arrays emptied / cut to one) singly, all ordered pairs of such substitutions on the one-element-per-collection model (every 7th pair in quick), all 2^11 x 3 patterns of absent top-level collections x extra{None,[],[x]}, all presence patterns of the lists inside cons (2^5), schedules (2^3) and overrides (2^2) with and without the rest of the model; every variant of every enumeration (9 bridge kinds, 4 boundary kinds, 3 space kinds, 3 tilt classes, 32 climate zones) set on the Rust side; oracle on every document that loads as a Model: from_json(as_json(m)) is Debug-identical to m and serialises to the identical text, and for the base documents and substitutions by non-default values the saved JSON value equals the document that was loaded; f32 number-leaf sweep (all finite bit patterns in thorough, every 4099th in quick) through a plain field and the flatten+untagged Material path; 7 shipped files value-equal after load+save; converted corpus; non-trivial = document loads as a model",
        stride == 1,
        json!({}),
    )
}
