//! cte-mc: bounded-exhaustive exploration of pachi/cteenergymodel (see /verif/DESIGN.md)
#![allow(clippy::all)]
#![allow(non_snake_case)]
#![allow(dead_code)]

mod common;
mod gen;
mod sup;
mod c01;
mod c03;
mod c04;
mod c05;
mod sched;
mod projgen;
mod c06;
mod corpus;
mod c07;
mod uref;
mod c08;
mod c11;
mod c12;
mod geo;
mod ind;
mod c13;
mod c14;
mod refm;
mod c15;
mod c16;
mod c17;
mod c18;
mod c19;
mod bdl;
mod c20;

use common::{Ctx, Tier};

fn main() {
    let args: Vec<String> = std::env::args().collect();
    if args.len() < 2 {
        eprintln!("usage: cte-mc <ID> <quick|thorough> | replay <file> | worker <space>");
        std::process::exit(2);
    }
    common::install_panic_hook();
    let id = args[1].as_str();
    if id == "sched" {
        std::process::exit(c05::sched_main(&args[2..]));
    }
    if id == "worker" {
        let space = args[2].clone();
        let code = sup::worker_main(&space, &|sp, idx| {
            if sp.starts_with("c13bvh") {
                c13::worker(sp, idx)
            } else if sp.starts_with("c14") {
                c14::worker(sp, idx)
            } else if sp.starts_with("c01") {
                c01::worker(sp, idx)
            } else if sp.starts_with("c05") {
                c05::worker(sp, idx)
            } else if sp.starts_with("c02") {
                c19::worker_c02(sp, idx)
            } else if sp.starts_with("c19") {
                c19::worker(sp, idx)
            } else {
                serde_json::json!({"verdict": "unknown-space"})
            }
        });
        std::process::exit(code);
    }
    if id == "bench-catalog" {
        let t = corpus::read_utf8(&corpus::ctehexml_path(&corpus::project_dirs()[0]).unwrap());
        let t0 = std::time::Instant::now();
        for _ in 0..20 {
            let _ = hulc::ctehexml::parse_with_catalog(&t);
        }
        let a = t0.elapsed().as_secs_f64() / 20.0;
        let t0 = std::time::Instant::now();
        for _ in 0..20 {
            let _ = corpus::parse_ctehexml_text(&t);
        }
        println!("parse_with_catalog {:.1} ms, parse + cached catalog {:.1} ms", a * 1e3, t0.elapsed().as_secs_f64() / 20.0 * 1e3);
        std::process::exit(0);
    }
    if id == "replay" {
        std::process::exit(replay(&args[2]));
    }
    let tier = match std::env::var("VERIF_TIER").ok().as_deref().or(args.get(2).map(|s| s.as_str())) {
        Some("thorough") => Tier::Thorough,
        _ => Tier::Quick,
    };
    let checks: Vec<(&str, fn(&Ctx) -> i32)> = vec![
        ("C01", c01::run),
        ("C02", c19::run_c02),
        ("C03", c03::run),
        ("C04", c04::run),
        ("C05", c05::run),
        ("C06", c06::run),
        ("C07", c07::run),
        ("C08", c08::run08),
        ("C09", c08::run09),
        ("C10", c08::run10),
        ("C11", c08::run11),
        ("C12", c12::run),
        ("C13", c13::run),
        ("C14", c14::run),
        ("C15", c15::run),
        ("C16", c16::run),
        ("C17", c17::run),
        ("C18", c18::run),
        ("C19", c19::run),
        ("C20", c20::run),
    ];
    let code = match checks.iter().find(|c| c.0 == id) {
        Some((name, f)) => f(&Ctx::new(name, tier)),
        None => {
            eprintln!("unknown check {}", id);
            2
        }
    };
    std::process::exit(code);
}

/// `cte-mc replay <file>`: re-executes the violation recorded in a replay file outside the explorer.
/// Indexed cases of the supervised fault spaces (C19 / C02 / C14 / C13-BVH / C05 histories) are re-run as that
/// single case in this process; for the other checks the property's check is re-run at the recorded tier and the
/// recorded violation key must show up again. Exit 1 = the violation reproduces, 0 = it does not, 2 = cannot replay.
fn replay(path: &str) -> i32 {
    let txt = match std::fs::read_to_string(path) {
        Ok(t) => t,
        Err(e) => {
            eprintln!("cannot read {}: {}", path, e);
            return 2;
        }
    };
    let v: serde_json::Value = match serde_json::from_str(&txt) {
        Ok(v) => v,
        Err(e) => {
            eprintln!("not a replay file: {}", e);
            return 2;
        }
    };
    let prop = v["property"].as_str().unwrap_or("");
    let key = v["key"].as_str().unwrap_or("");
    let tier = v["tier"].as_str().unwrap_or("quick");
    println!("replaying property={} key={}", prop, key);
    println!("recorded: {}", v["what"].as_str().unwrap_or(""));
    let idx = v["replay"]["index"].as_u64();
    let part = v["replay"]["case"]["part"].as_str().unwrap_or("");
    let single = match (prop, idx) {
        ("C19", Some(i)) => Some(c19::worker("c19", i)),
        ("C02", Some(i)) => Some(c19::worker_c02("c02", i)),
        ("C14", Some(i)) => Some(c14::worker(&format!("c14{}-{}", match part { "single-edit" => "a", "edit-pair" => "b", _ => "c" }, tier), i)),
        _ => None,
    };
    if let Some(r) = single {
        println!("single case index {} -> {}", idx.unwrap(), r);
        let bad = matches!(r["verdict"].as_str(), Some("panic")) || r["n_defects"].as_u64().unwrap_or(0) > 0 || r["non_finite"].as_array().map_or(false, |a| !a.is_empty());
        println!("{}", if bad { "REPRODUCED" } else { "single case is clean now (census / finiteness comparisons need the full check)" });
        if bad {
            return 1;
        }
    }
    // re-run the whole check at the recorded tier and look for the key
    let exe = std::env::current_exe().unwrap();
    let out = std::process::Command::new(exe).arg(prop).arg(tier).output();
    match out {
        Ok(o) => {
            let so = String::from_utf8_lossy(&o.stdout);
            let hit = so.lines().any(|l| l.trim_start().starts_with("key=") && l.contains(key)) || so.lines().any(|l| l.starts_with("KNOWN-FINDING") && l.contains(key));
            println!("{}", if hit { "REPRODUCED (key reported again by the check)" } else { "NOT REPRODUCED" });
            if hit {
                1
            } else {
                0
            }
        }
        Err(e) => {
            eprintln!("cannot re-run the check: {}", e);
            2
        }
    }
}
