//! cte-mc: bounded-exhaustive exploration of pachi/cteenergymodel (see /verif/DESIGN.md)
#![allow(clippy::all)]
#![allow(non_snake_case)]

mod common;
mod gen;
mod c07;
mod c13;
mod sup;
mod c15;

use common::{Ctx, Tier};

fn main() {
    let args: Vec<String> = std::env::args().collect();
    if args.len() < 2 {
        eprintln!("usage: cte-mc <ID> <quick|thorough> | replay <file>");
        std::process::exit(2);
    }
    common::install_panic_hook();
    let id = args[1].as_str();
    if id == "worker" {
        let space = args[2].clone();
        let code = sup::worker_main(&space, &|sp, idx| {
            if sp.starts_with("c13bvh") {
                c13::worker(sp, idx)
            } else {
                serde_json::json!({"verdict": "unknown-space"})
            }
        });
        std::process::exit(code);
    }
    let tier = match std::env::var("VERIF_TIER").ok().as_deref().or(args.get(2).map(|s| s.as_str())) {
        Some("thorough") => Tier::Thorough,
        _ => Tier::Quick,
    };
    let code = match id {
        "C07" => c07::run(&Ctx::new("C07", tier)),
        "C13" => c13::run(&Ctx::new("C13", tier)),
        "C15" => c15::run(&Ctx::new("C15", tier)),
        _ => {
            eprintln!("unknown check {}", id);
            2
        }
    };
    std::process::exit(code);
}
