//! C13 — ray casting: accelerated = exhaustive (BVH), exact ray/polygon geometry, reveal surfaces
//! (a) E2-supervised BVH build (termination) + equivalence on all sequences over a box alphabet,
//! (b) E1 all simple grid polygons x poses x rational rays against exact integer point-in-polygon,
//! (c) E1 reveal quads against the wall's own transform.

use crate::common::*;
use crate::gen::*;
use crate::sup;
use bemodel::energy::{Bounded, Intersectable, Ray, AABB, BVH};
use bemodel::*;
use serde_json::{json, Value};
use std::collections::HashSet;
use std::sync::Mutex;

// ------------------------------------------------------------------ (a) BVH

fn box_alphabet() -> Vec<AABB> {
    let b = |a: [f32; 3], c: [f32; 3]| AABB::new(point![a[0], a[1], a[2]], point![c[0], c[1], c[2]]);
    vec![
        b([0., 0., 0.], [1., 1., 1.]),
        b([2., 0., 0.], [3., 1., 1.]),
        b([0., 2., 0.], [1., 3., 1.]),
        b([0., 0., 2.], [1., 1., 3.]),
        b([1., 1., 1.], [2., 2., 2.]), // centre 1.5
        b([0., 0., 0.], [3., 3., 3.]), // same centre as #4
        b([0., 0., 1.], [3., 3., 1.]), // flat
        b([2., 2., 2.], [2., 2., 2.]), // point
    ]
}

/// 88 rays: 8 origins (never on a grid plane) x 11 directions
fn rays() -> Vec<Ray> {
    let origins = [
        [-1.5f32, -1.25, -1.75],
        [1.4, 1.6, 1.45], // inside the big boxes
        [0.55, 0.45, -1.5],
        [4.25, 4.5, 4.75],
        [2.6, 0.4, 0.35],
        [-0.5, 1.5, 1.5],
        [1.5, 1.5, 5.5],
        [0.3, 2.4, 0.6],
    ];
    let dirs = [
        [1.0f32, 0.0, 0.0],
        [-1.0, 0.0, 0.0],
        [0.0, 1.0, 0.0],
        [0.0, 0.0, 1.0],
        [0.0, 0.0, -1.0],
        [1.0, 1.0, 1.0],
        [-1.0, -1.0, -1.0],
        [1.0, 0.07, 0.03],
        // axis-parallel directions obtained by negation: components that are exactly -0.0
        [-0.0, -0.0, -1.0],
        [-1.0, -0.0, -0.0],
        [-0.0, 1.0, -0.0],
    ];
    let mut v = vec![];
    for o in origins {
        for d in dirs {
            v.push(Ray::new(point![o[0], o[1], o[2]], vector![d[0], d[1], d[2]]));
        }
    }
    v
}

fn seq_of(mut idx: u64, alpha: u64, maxlen: u32) -> Option<Vec<usize>> {
    // enumerate sequences by length: len 0 (1), len 1 (alpha) ...
    for len in 0..=maxlen {
        let cnt = alpha.pow(len);
        if idx < cnt {
            let mut s = vec![];
            for _ in 0..len {
                s.push((idx % alpha) as usize);
                idx /= alpha;
            }
            return Some(s);
        }
        idx -= cnt;
    }
    None
}

fn n_seqs(alpha: u64, maxlen: u32) -> u64 {
    (0..=maxlen).map(|l| alpha.pow(l)).sum()
}

#[derive(Clone, Debug)]
enum BvhCase {
    Seq(Vec<usize>),
    Copies(usize, usize), // element, n
    Collinear(usize),     // n boxes with centres on a line x=y=z? no: same x,y; z differs -> degenerate on two axes
    SameAxisCentre(usize), // n boxes whose centres coincide on the longest axis but differ elsewhere
    Lattice(usize),       // first n boxes of the 6x6x6 lattice
    Occluders(usize, usize), // model with k shades (variant), through BVH<&Occluder>
    /// n boxes whose centres coincide on the longest axis at a value that is not a binary fraction (the f32 mean of n
    /// equal values need not equal the value): (n, index into INEXACT_CENTRES)
    InexactCentre(usize, usize),
    /// n small boxes along x whose centres grow geometrically (ratio 10 from 1e-36, or ratio 50 from 1e-30): splitting at
    /// the mean centre peels one box per level, the tree is as deep as the set is large: (n, ratio kind)
    Progression(usize, usize),
}

const INEXACT_CENTRES: [f32; 6] = [4.05, 0.1, 0.7, 1.0e-3, 123456.7, -2.3];

const STRUCT_N: [usize; 14] = [2, 3, 4, 5, 8, 16, 29, 30, 31, 32, 33, 60, 61, 64];

fn bvh_cases(tier: Tier) -> Vec<BvhCase> {
    let maxlen = tier.pick(4, 5);
    let mut v = vec![];
    for i in 0..n_seqs(8, maxlen) {
        v.push(BvhCase::Seq(seq_of(i, 8, maxlen).unwrap()));
    }
    let ns: Vec<usize> = match tier {
        Tier::Quick => STRUCT_N.to_vec(),
        Tier::Thorough => (2..=64).collect(),
    };
    for &n in &ns {
        for e in [0usize, 6, 7] {
            v.push(BvhCase::Copies(e, n));
        }
        v.push(BvhCase::Collinear(n));
        v.push(BvhCase::SameAxisCentre(n));
        for c in 0..INEXACT_CENTRES.len() {
            v.push(BvhCase::InexactCentre(n, c));
        }
    }
    for (n, kind) in [(20usize, 0usize), (40, 0), (74, 0), (20, 1), (40, 1)] {
        v.push(BvhCase::Progression(n, kind));
    }
    let lat: Vec<usize> = match tier {
        Tier::Quick => vec![0, 1, 2, 7, 29, 30, 31, 62, 100, 200, 216],
        Tier::Thorough => (0..=216).collect(),
    };
    for n in lat {
        v.push(BvhCase::Lattice(n));
    }
    let ks: Vec<usize> = match tier {
        Tier::Quick => vec![0, 1, 2, 5, 29, 30, 31, 40],
        Tier::Thorough => (0..=64).collect(),
    };
    for k in ks {
        for variant in 0..3 {
            v.push(BvhCase::Occluders(k, variant));
        }
    }
    v
}

fn elements_for(c: &BvhCase) -> Vec<AABB> {
    let al = box_alphabet();
    match c {
        BvhCase::Seq(s) => s.iter().map(|&i| al[i]).collect(),
        BvhCase::Copies(e, n) => vec![al[*e]; *n],
        BvhCase::Collinear(n) => (0..*n)
            .map(|i| {
                let z = i as f32 * 0.5;
                AABB::new(point![0.0, 0.0, z], point![1.0, 1.0, z + 0.25])
            })
            .collect(),
        BvhCase::SameAxisCentre(n) => (0..*n)
            .map(|i| {
                // widest extent along x, all centres share x = 5; y differs
                let y = i as f32 * 0.1;
                AABB::new(point![0.0, y, 0.0], point![10.0, y + 0.05, 0.05])
            })
            .collect(),
        BvhCase::InexactCentre(n, c) => (0..*n)
            .map(|i| {
                // slats: 3 m long along x around the common centre, stacked in z
                let (cx, z) = (INEXACT_CENTRES[*c], i as f32 * 0.03);
                AABB::new(point![cx - 1.5, 0.0, z], point![cx + 1.5, 0.15, z + 0.01])
            })
            .collect(),
        BvhCase::Lattice(n) => (0..*n)
            .map(|i| {
                let (x, y, z) = ((i % 6) as f32, ((i / 6) % 6) as f32, (i / 36) as f32);
                AABB::new(point![x * 0.5, y * 0.5, z * 0.5], point![x * 0.5 + 0.3, y * 0.5 + 0.3, z * 0.5 + 0.3])
            })
            .collect(),
        BvhCase::Progression(n, kind) => (0..*n).map(|i| progression_box(i, *kind)).collect(),
        BvhCase::Occluders(..) => vec![],
    }
}

fn progression_centre(i: usize, kind: usize) -> f32 {
    // (computed in f64: the powers alone leave the f32 range)
    if kind == 0 {
        (1.0e-36f64 * 10f64.powi(i as i32)) as f32
    } else {
        (1.0e-30f64 * 50f64.powi(i as i32)) as f32
    }
}

fn progression_box(i: usize, kind: usize) -> AABB {
    let c = progression_centre(i, kind);
    AABB::new(point![0.9 * c, -0.1 * c, -0.1 * c], point![1.1 * c, 0.1 * c, 0.1 * c])
}

/// one ray through every box of a progression (from below its centre, upwards), one between the two largest and one
/// pointing away from all of them
fn progression_rays(n: usize, kind: usize) -> Vec<Ray> {
    let mut v: Vec<Ray> = (0..n)
        .map(|i| {
            let c = progression_centre(i, kind);
            Ray::new(point![c, 0.0, -c], nalgebra::vector![0.0, 0.0, 1.0])
        })
        .collect();
    let c = progression_centre(n - 1, kind);
    v.push(Ray::new(point![0.5 * c, 0.0, -c], nalgebra::vector![0.0, 0.0, 1.0]));
    v.push(Ray::new(point![c, 0.0, -c], nalgebra::vector![0.0, 0.0, -1.0]));
    v
}

fn occluder_model(k: usize, variant: usize) -> Model {
    let mut m = Model::default();
    for i in 0..k {
        let (pos, tilt, az) = match variant {
            0 => ([(i % 7) as f32 * 1.5, (i / 7) as f32 * 1.5, 0.0], 90.0, (i * 45) as f32),
            1 => ([1.0, 1.0, 1.0], 90.0, 0.0), // all identical
            _ => ([0.0, 0.0, i as f32 * 0.4], 0.0, 0.0), // stacked horizontal
        };
        m.shades.push(Shade {
            id: uid(&format!("sh{i}")),
            name: format!("sh{i}"),
            geometry: geom(tilt, az, Some(pos), rect(1.0, 1.0)), ..Default::default()
        });
    }
    m
}

fn bvh_case_run(c: &BvhCase) -> Value {
    let rs = rays();
    let mut checked = 0u64;
    let mut hits = 0u64;
    if let BvhCase::Occluders(k, variant) = c {
        let m = occluder_model(*k, *variant);
        let occ = m.collect_occluders();
        for leaf in [1usize, 2, 30] {
            let refs: Vec<_> = occ.iter().collect();
            let bvh = BVH::build(refs, leaf);
            for (ri, r) in rs.iter().enumerate() {
                let a = bvh.intersects(r).is_some();
                let b = occ.iter().any(|e| (&e).intersects(r).is_some());
                checked += 1;
                if b {
                    hits += 1;
                }
                if a != b {
                    return json!({"verdict": "mismatch", "leaf": leaf, "ray": ri, "bvh": a, "linear": b, "n": occ.len()});
                }
            }
        }
        return json!({"verdict": "ok", "checked": checked, "hits": hits, "n": occ.len()});
    }
    let els = elements_for(c);
    let rs = if let BvhCase::Progression(n, kind) = c { progression_rays(*n, *kind) } else { rs };
    let leaves: &[usize] = match c {
        BvhCase::Seq(_) => &[1, 2, 3, 30],
        _ => &[1, 2, 4, 30],
    };
    for &leaf in leaves {
        let bvh = BVH::build(els.clone(), leaf);
        for (ri, r) in rs.iter().enumerate() {
            let a = bvh.intersects(r).is_some();
            let b = els.iter().any(|e| e.intersects(r).is_some());
            checked += 1;
            if b {
                hits += 1;
            }
            if a != b {
                return json!({"verdict": "mismatch", "leaf": leaf, "ray": ri, "bvh": a, "linear": b, "n": els.len()});
            }
        }
    }
    json!({"verdict": "ok", "checked": checked, "hits": hits, "n": els.len()})
}

/// worker entry: space "c13bvh-quick" / "c13bvh-thorough"
pub fn worker(space: &str, idx: u64) -> Value {
    let tier = if space.ends_with("thorough") { Tier::Thorough } else { Tier::Quick };
    thread_local! { static CASES: std::cell::RefCell<Option<Vec<BvhCase>>> = std::cell::RefCell::new(None); }
    let c = CASES.with(|cs| {
        let mut cs = cs.borrow_mut();
        if cs.is_none() {
            *cs = Some(bvh_cases(tier));
        }
        cs.as_ref().unwrap()[idx as usize].clone()
    });
    match catch(std::panic::AssertUnwindSafe(|| bvh_case_run(&c))) {
        Ok(v) => v,
        Err(p) => json!({"verdict": "panic", "panic": p, "exit_after": true}),
    }
}

fn class_of(c: &BvhCase) -> String {
    match c {
        BvhCase::Seq(s) => {
            let mut d = s.clone();
            d.sort();
            d.dedup();
            let dup = d.len() < s.len();
            let same_centre = s.contains(&4) && s.contains(&5);
            format!("n={}{}", if s.is_empty() { "0".to_string() } else { ">0".to_string() }, if dup || same_centre { ",coincident-centres" } else { "" })
        }
        BvhCase::Copies(..) => "n>0,coincident-centres".into(),
        BvhCase::Collinear(_) => "n>0".into(),
        BvhCase::SameAxisCentre(_) => "n>0,coincident-on-split-axis".into(),
        BvhCase::Lattice(n) => if *n == 0 { "n=0".into() } else { "n>0".into() },
        BvhCase::InexactCentre(..) => "n>0,coincident-on-split-axis:centre-not-a-binary-fraction".into(),
        BvhCase::Progression(..) => "n>0,centres-in-geometric-progression".into(),
        BvhCase::Occluders(k, v) => format!("n{}{}", if *k == 0 { "=0" } else { ">0" }, if *v == 1 && *k > 1 { ",coincident-centres" } else { "" }),
    }
}

/// reference slab test in f64: does the ray (origin o, direction d) meet the box for some t >= 0 ?
/// returns None when the answer hinges on a tie (grazing an edge / face)
fn slab_ref(b: &AABB, o: [f64; 3], d: [f64; 3]) -> Option<bool> {
    let (mut tmin, mut tmax) = (f64::NEG_INFINITY, f64::INFINITY);
    let mins = [b.min.x as f64, b.min.y as f64, b.min.z as f64];
    let maxs = [b.max.x as f64, b.max.y as f64, b.max.z as f64];
    for k in 0..3 {
        if d[k] == 0.0 {
            if (o[k] - mins[k]).abs() < 1e-6 || (o[k] - maxs[k]).abs() < 1e-6 {
                return None;
            }
            if o[k] < mins[k] || o[k] > maxs[k] {
                return Some(false);
            }
        } else {
            let (a, c) = ((mins[k] - o[k]) / d[k], (maxs[k] - o[k]) / d[k]);
            tmin = tmin.max(a.min(c));
            tmax = tmax.min(a.max(c));
        }
    }
    if (tmax - tmin).abs() < 1e-6 || tmax.abs() < 1e-6 {
        return None;
    }
    Some(tmax >= 0.0 && tmin <= tmax)
}

/// AABB::intersects against the f64 slab reference, and BVH over plain WallGeom elements (no box pre-check on
/// the element side) against the one-by-one polygon test
fn run_aabb_and_wallgeom(ctx: &Ctx, bvh_terminates: bool) {
    let rs = rays();
    let mut boxes = box_alphabet();
    boxes.extend(elements_for(&BvhCase::Lattice(40)));
    let (mut n, mut hits) = (0u64, 0u64);
    for (bi, b) in boxes.iter().enumerate() {
        for (ri, r) in rs.iter().enumerate() {
            let o = [r.origin.x as f64, r.origin.y as f64, r.origin.z as f64];
            let d = [r.dir.x as f64, r.dir.y as f64, r.dir.z as f64];
            let Some(exp) = slab_ref(b, o, d) else { continue };
            n += 1;
            let got = b.intersects(r).is_some();
            if exp {
                hits += 1;
            }
            if got != exp {
                let negzero = [r.dir.x, r.dir.y, r.dir.z].iter().any(|c| *c == 0.0 && c.is_sign_negative());
                ctx.violation(&format!("aabb.intersects:{}{}", if got { "false-hit" } else { "missed-hit" }, if negzero { ":direction-with-negative-zero" } else { "" }), &format!("box {:?} ray origin {:?} dir {:?}: intersects={} expected {}", b, r.origin, r.dir, got, exp), json!({"kind": "aabb", "box": bi, "ray": ri}));
            }
        }
    }
    if !bvh_terminates {
        // some supervised build did not return: building in this process could loop or exhaust memory
        ctx.note("in_process_bvh_families_skipped", json!("a supervised BVH build did not return"));
        ctx.eval(n);
        ctx.note("aabb_and_wallgeom", json!({"comparisons": n, "expected_hits": hits}));
        return;
    }
    // BVH<WallGeom>
    for k in [1usize, 2, 5, 31, 40] {
        for variant in 0..3 {
            let m = occluder_model(k, variant);
            let geoms: Vec<WallGeom> = m.shades.iter().map(|s| s.geometry.clone()).collect();
            for leaf in [1usize, 2, 30] {
                let bvh = BVH::build(geoms.clone(), leaf);
                for (ri, r) in rs.iter().enumerate() {
                    let a = bvh.intersects(r).is_some();
                    let b = geoms.iter().any(|g| g.intersects(r).is_some());
                    n += 1;
                    if b {
                        hits += 1;
                    }
                    if a != b {
                        ctx.violation("bvh.intersects:differs-from-linear:wallgeom-elements", &format!("BVH over {} plain polygons (leaf size {}) says {} but testing every polygon says {} (ray {})", geoms.len(), leaf, a, b, ri), json!({"kind": "bvh-wallgeom", "k": k, "variant": variant, "leaf": leaf, "ray": ri}));
                    }
                }
            }
        }
    }
    // complementary triangles of one rectangle (same bounding box, different polygon), all centres coinciding:
    // the coincident-centres fallback of the partition must keep both; rays on a grid over the rectangle
    for k in [2usize, 3, 4, 31, 32, 40] {
        for leaf in [1usize, 2, 30] {
            let mut geoms: Vec<WallGeom> = vec![];
            for i in 0..k {
                let poly: Polygon = if i % 2 == 0 { vec![point![0.0, 0.0], point![4.0, 0.0], point![4.0, 3.0]] } else { vec![point![0.0, 0.0], point![4.0, 3.0], point![0.0, 3.0]] };
                geoms.push(geom(90.0, 0.0, Some([1.0, 2.0, 0.5]), poly));
            }
            let bvh = BVH::build(geoms.clone(), leaf);
            for gx in 0..10 {
                for gz in 0..8 {
                    let r = Ray::new(point![1.0 + 0.2 + gx as f32 * 0.4, -3.0, 0.5 + 0.19 + gz as f32 * 0.37], vector![0.0, 1.0, 0.0]);
                    let a = bvh.intersects(&r).is_some();
                    let b = geoms.iter().any(|g| g.intersects(&r).is_some());
                    n += 1;
                    if b {
                        hits += 1;
                    }
                    if a != b {
                        ctx.violation("bvh.intersects:differs-from-linear:equal-boxes-different-polygons", &format!("{} complementary triangles sharing one bounding box (leaf size {}): BVH says {} but testing every polygon says {}", k, leaf, a, b), json!({"kind": "bvh-triangles", "k": k, "leaf": leaf, "ray_origin": [r.origin.x, r.origin.y, r.origin.z]}));
                    }
                }
            }
        }
    }
    ctx.eval(n);
    ctx.note("aabb_and_wallgeom", json!({"comparisons": n, "expected_hits": hits}));
}

fn run_bvh(ctx: &Ctx) -> bool {
    let cases = bvh_cases(ctx.tier);
    let idxs: Vec<u64> = (0..cases.len() as u64).collect();
    let space = format!("c13bvh-{}", ctx.tier.name());
    let stats = Mutex::new((0u64, 0u64, 0u64)); // rays checked, hits, cases with elements > leaf
    let hangs = std::sync::atomic::AtomicU64::new(0);
    sup::supervise(&space, &idxs, std::time::Duration::from_secs(5), &|idx, v| {
        let c = &cases[idx as usize];
        ctx.eval(1);
        let verdict = v["verdict"].as_str().unwrap_or("?").to_string();
        let case = || json!({"kind": "bvh", "case": format!("{:?}", c), "index": idx, "result": v});
        match verdict.as_str() {
            "ok" => {
                let mut s = stats.lock().unwrap();
                s.0 += v["checked"].as_u64().unwrap_or(0);
                s.1 += v["hits"].as_u64().unwrap_or(0);
                if v["n"].as_u64().unwrap_or(0) > 0 {
                    s.2 += 1;
                    ctx.nontriv(1);
                }
                ctx.outcome(&(v["hits"].as_u64(), v["n"].as_u64()));
            }
            "mismatch" => {
                let n = v["n"].as_u64().unwrap_or(0);
                let leaf = v["leaf"].as_u64().unwrap_or(0);
                let key = format!("bvh.intersects:differs-from-linear:{}", if n <= leaf { "n<=leaf_size" } else { "n>leaf_size" });
                ctx.violation(&key, &format!("BVH says {} but testing every obstacle says {} (n={}, leaf size {})", v["bvh"], v["linear"], n, leaf), case());
            }
            "panic" => {
                let key = format!("bvh.build:panic:{} [{}]", panic_key(v["panic"].as_str().unwrap_or("")), class_of(c));
                ctx.violation(&key, &format!("building/querying the BVH panicked: {}", v["panic"]), case());
            }
            "timeout" | "oom-or-killed" | "abort" | "died" | "segv" => {
                let key = format!("bvh.build:{}:[{}]", if verdict == "timeout" { "nontermination" } else { "crash" }, class_of(c));
                ctx.violation(&key, &format!("BVH build did not return ({}) for {:?}", verdict, c), case());
                if hangs.fetch_add(1, std::sync::atomic::Ordering::Relaxed) >= 24 {
                    ctx.note("bvh_stopped_early", json!("more than 24 hangs/crashes: remaining BVH cases not run"));
                    return false;
                }
            }
            _ => ctx.machinery_error(format!("worker verdict {} for case {}", verdict, idx)),
        }
        true
    });
    let s = stats.lock().unwrap();
    ctx.note("bvh", json!({"cases": cases.len(), "ray_queries_compared": s.0, "ray_queries_blocked": s.1, "cases_nonempty_ok": s.2}));
    ctx.sample(json!({"kind": "bvh", "case": format!("{:?}", cases[cases.len() / 3])}));
    ctx.sample(json!({"kind": "bvh", "case": format!("{:?}", cases[cases.len() - 1])}));
    // did every supervised build return? (the in-process builds below are only safe then)
    let terminates = hangs.load(std::sync::atomic::Ordering::Relaxed) == 0;
    terminates
}

// ------------------------------------------------------------------ (b) ray / polygon exact

type IP = (i32, i32);

fn cross(o: IP, a: IP, b: IP) -> i64 {
    (a.0 - o.0) as i64 * (b.1 - o.1) as i64 - (a.1 - o.1) as i64 * (b.0 - o.0) as i64
}
fn on_seg(a: IP, b: IP, p: IP) -> bool {
    cross(a, b, p) == 0 && p.0 >= a.0.min(b.0) && p.0 <= a.0.max(b.0) && p.1 >= a.1.min(b.1) && p.1 <= a.1.max(b.1)
}
fn segs_intersect(a: IP, b: IP, c: IP, d: IP) -> bool {
    let d1 = cross(c, d, a).signum();
    let d2 = cross(c, d, b).signum();
    let d3 = cross(a, b, c).signum();
    let d4 = cross(a, b, d).signum();
    if d1 * d2 < 0 && d3 * d4 < 0 {
        return true;
    }
    on_seg(c, d, a) || on_seg(c, d, b) || on_seg(a, b, c) || on_seg(a, b, d)
}
fn is_simple(p: &[IP]) -> bool {
    let n = p.len();
    let area2: i64 = (0..n).map(|i| p[i].0 as i64 * p[(i + 1) % n].1 as i64 - p[i].1 as i64 * p[(i + 1) % n].0 as i64).sum();
    if area2 == 0 {
        return false;
    }
    for i in 0..n {
        // consecutive collinear-overlapping edges / spikes
        let (a, b, c) = (p[i], p[(i + 1) % n], p[(i + 2) % n]);
        if cross(a, b, c) == 0 {
            // collinear: reject if c folds back over a-b, allow straight continuation? reject all collinear triples (keeps polygons in general position)
            return false;
        }
        for j in (i + 1)..n {
            let adjacent = j == i + 1 || (i == 0 && j == n - 1);
            if adjacent {
                continue;
            }
            if segs_intersect(p[i], p[(i + 1) % n], p[j], p[(j + 1) % n]) {
                return false;
            }
        }
    }
    true
}

/// exact point-in-polygon for a point with coordinates (px/4, py/4), polygon integer vertices.
/// returns None if the point lies on the outline.
fn pip_exact(poly: &[IP], px: i32, py: i32) -> Option<bool> {
    let q: Vec<IP> = poly.iter().map(|v| (v.0 * 4, v.1 * 4)).collect();
    let p = (px, py);
    let n = q.len();
    let mut inside = false;
    for i in 0..n {
        let (a, b) = (q[i], q[(i + 1) % n]);
        if on_seg(a, b, p) {
            return None;
        }
        if (a.1 > p.1) != (b.1 > p.1) {
            // x of intersection > p.x ?  compare exactly: (b.0-a.0)*(p.1-a.1)/(b.1-a.1) + a.0 > p.0
            let lhs = (b.0 - a.0) as i64 * (p.1 - a.1) as i64;
            let rhs = (p.0 - a.0) as i64 * (b.1 - a.1) as i64;
            let gt = if b.1 - a.1 > 0 { lhs > rhs } else { lhs < rhs };
            if gt {
                inside = !inside;
            }
        }
    }
    Some(inside)
}

fn grid_polys(k: usize, gx: i32, gy: i32) -> Vec<Vec<IP>> {
    let pts: Vec<IP> = (0..gx).flat_map(|x| (0..gy).map(move |y| (x, y))).collect();
    let mut out = vec![];
    let mut cur: Vec<usize> = vec![];
    fn rec(pts: &[IP], k: usize, cur: &mut Vec<usize>, out: &mut Vec<Vec<IP>>) {
        if cur.len() == k {
            let p: Vec<IP> = cur.iter().map(|&i| pts[i]).collect();
            if is_simple(&p) {
                out.push(p);
            }
            return;
        }
        for i in 0..pts.len() {
            if !cur.contains(&i) {
                cur.push(i);
                rec(pts, k, cur, out);
                cur.pop();
            }
        }
    }
    rec(&pts, k, &mut cur, &mut out);
    out
}

const TILTS: [f32; 5] = [0.0, 30.0, 90.0, 135.0, 180.0];
const AZS: [f32; 5] = [0.0, 45.0, 90.0, -120.0, 180.0];
const POSS: [[f32; 3]; 2] = [[0.0, 0.0, 0.0], [3.0, -2.0, 1.5]];

fn to_world(tilt: f32, az: f32, pos: [f32; 3], l: [f64; 3]) -> [f64; 3] {
    let (t, a) = ((tilt as f64).to_radians(), (az as f64).to_radians());
    // Rx(t)
    let (x1, y1, z1) = (l[0], l[1] * t.cos() - l[2] * t.sin(), l[1] * t.sin() + l[2] * t.cos());
    // Rz(a)
    let (x2, y2, z2) = (x1 * a.cos() - y1 * a.sin(), x1 * a.sin() + y1 * a.cos(), z1);
    [x2 + pos[0] as f64, y2 + pos[1] as f64, z2 + pos[2] as f64]
}

fn run_polys(ctx: &Ctx) {
    let mut polys: Vec<Vec<IP>> = vec![];
    polys.extend(grid_polys(3, 4, 4));
    polys.extend(grid_polys(4, 4, 4));
    let n34 = polys.len();
    if ctx.tier == Tier::Thorough {
        polys.extend(grid_polys(5, 4, 4));
        polys.extend(grid_polys(6, 3, 3));
    } else {
        // quick: 5-gons on a 3x3 grid
        polys.extend(grid_polys(5, 3, 3));
    }
    // outlines with a corner in the middle of a side (three collinear corners in a row - common in real outlines),
    // listed from every corner and in both senses
    for base in [vec![(0, 0), (2, 0), (3, 0), (3, 3), (0, 3)], vec![(0, 0), (1, 0), (2, 0), (3, 0), (3, 2), (0, 2)], vec![(0, 0), (3, 0), (3, 1), (3, 3), (1, 3), (1, 1), (0, 1)]] {
        for rev in [false, true] {
            let mut b: Vec<IP> = base.clone();
            if rev {
                b.reverse();
            }
            for r in 0..b.len() {
                let mut q = b.clone();
                q.rotate_left(r);
                polys.push(q);
            }
        }
    }
    let poses: Vec<(f32, f32, [f32; 3])> = TILTS.iter().flat_map(|t| AZS.iter().flat_map(move |a| POSS.iter().map(move |p| (*t, *a, *p)))).collect();
    // (the last one grazes the plane: 0.3 degrees, cosine with the normal 0.0054 - far above the parallel guard of 1e-5)
    let local_dirs: [[f64; 3]; 4] = [[0.0, 0.0, 1.0], [0.3, 0.2, 1.0], [-0.5, 0.4, 0.7], [1.0, 0.5, 0.006]];
    let np = polys.len() as u64;
    #[derive(Default)]
    struct Acc {
        calls: u64,
        inside_hits: u64,
        nontrivial_polys: u64,
        outcomes: HashSet<u64>,
    }
    let accs = par_fold(np, |pi, acc: &mut Acc| {
        let poly = &polys[pi as usize];
        // which poses: quick -> 4 poses per polygon rotating with the index; thorough -> all for <=4-gons, 6 for larger
        let nposes = match ctx.tier {
            Tier::Quick => 4,
            Tier::Thorough => {
                if (pi as usize) < n34 {
                    poses.len()
                } else {
                    6
                }
            }
        };
        let polygon: Polygon = poly.iter().map(|p| point![p.0 as f32, p.1 as f32]).collect();
        let mut poly_inside = 0;
        for k in 0..nposes {
            let (tilt, az, pos) = poses[(pi as usize * 7 + k * 13) % poses.len()];
            let g = geom(tilt, az, Some(pos), polygon.clone());
            // bounding box contains all corners
            let bb = g.aabb();
            for v in poly {
                let w = to_world(tilt, az, pos, [v.0 as f64, v.1 as f64, 0.0]);
                let tol = 1e-3;
                if w[0] < bb.min.x as f64 - tol || w[0] > bb.max.x as f64 + tol || w[1] < bb.min.y as f64 - tol || w[1] > bb.max.y as f64 + tol || w[2] < bb.min.z as f64 - tol || w[2] > bb.max.z as f64 + tol {
                    ctx.violation("aabb:corner-outside", &format!("corner {:?} -> {:?} outside {:?}", v, w, bb), json!({"kind": "polygon", "polygon": poly, "tilt": tilt, "azimuth": az, "position": pos}));
                }
            }
            for tx in 0..8 {
                for ty in 0..8 {
                    let (px, py) = (-1 + 2 * tx, -1 + 2 * ty); // quarters: -0.25 .. 3.25
                    let exp_inside = match pip_exact(poly, px, py) {
                        Some(b) => b,
                        None => continue, // on the outline: band
                    };
                    let p_local = [px as f64 / 4.0, py as f64 / 4.0, 0.0];
                    for (di, d) in local_dirs.iter().enumerate() {
                        let len = (d[0] * d[0] + d[1] * d[1] + d[2] * d[2]).sqrt();
                        let dn = [d[0] / len, d[1] / len, d[2] / len];
                        let l = 2.5;
                        // variants: 0 from front towards; 1 from front away; 2 from behind towards; 3 parallel
                        for variant in 0..4 {
                            let (o_local, dir_local, crosses_in_front) = match variant {
                                0 => ([p_local[0] + dn[0] * l, p_local[1] + dn[1] * l, dn[2] * l], [-dn[0], -dn[1], -dn[2]], true),
                                1 => ([p_local[0] + dn[0] * l, p_local[1] + dn[1] * l, dn[2] * l], dn, false),
                                2 => ([p_local[0] - dn[0] * l, p_local[1] - dn[1] * l, -dn[2] * l], dn, true),
                                _ => {
                                    if di != 0 {
                                        continue;
                                    }
                                    ([p_local[0], p_local[1], 1.0], [0.6, 0.8, 0.0], false)
                                }
                            };
                            let o = to_world(tilt, az, pos, o_local);
                            let tip = to_world(tilt, az, pos, [o_local[0] + dir_local[0], o_local[1] + dir_local[1], o_local[2] + dir_local[2]]);
                            let ray = Ray::new(point![o[0] as f32, o[1] as f32, o[2] as f32], vector![(tip[0] - o[0]) as f32, (tip[1] - o[1]) as f32, (tip[2] - o[2]) as f32]);
                            let got = g.intersects(&ray).is_some();
                            let exp = crosses_in_front && exp_inside;
                            acc.calls += 1;
                            if exp {
                                acc.inside_hits += 1;
                                poly_inside += 1;
                            }
                            if got != exp {
                                let key = format!(
                                    "ray-polygon:{}:{}",
                                    if got { "false-hit" } else { "missed-hit" },
                                    match variant {
                                        0 => "front-towards",
                                        1 => "front-away",
                                        2 => "behind-towards",
                                        _ => "parallel",
                                    }
                                );
                                ctx.violation(
                                    &key,
                                    &format!("hit={} expected {} (target inside polygon: {})", got, exp, exp_inside),
                                    json!({"kind": "polygon", "polygon": poly, "tilt": tilt, "azimuth": az, "position": pos, "target_local": p_local, "origin_world": o, "dir_local": dir_local, "variant": variant}),
                                );
                            }
                        }
                    }
                }
            }
        }
        // degenerate scan lines: identity pose, perpendicular rays, targets on the full quarter lattice
        // (crossing points whose y equals a vertex y exactly, but which are not on the outline)
        {
            let g = geom(0.0, 0.0, Some([0.0, 0.0, 0.0]), polygon.clone());
            for px in -2..=14 {
                for py in -2..=14 {
                    let Some(exp_inside) = pip_exact(poly, px, py) else { continue };
                    for (oz, dz) in [(2.0f32, -1.0f32), (-2.0, 1.0)] {
                        let ray = Ray::new(point![px as f32 / 4.0, py as f32 / 4.0, oz], vector![0.0, 0.0, dz]);
                        let got = g.intersects(&ray).is_some();
                        acc.calls += 1;
                        if exp_inside {
                            acc.inside_hits += 1;
                            poly_inside += 1;
                        }
                        if got != exp_inside {
                            ctx.violation(
                                &format!("ray-polygon:{}:scanline-through-vertex", if got { "false-hit" } else { "missed-hit" }),
                                &format!("hit={} expected {} for the crossing point ({}, {}) (exact local coordinates, identity pose)", got, exp_inside, px as f32 / 4.0, py as f32 / 4.0),
                                json!({"kind": "polygon", "polygon": poly, "tilt": 0, "azimuth": 0, "position": [0, 0, 0], "target_local": [px as f32 / 4.0, py as f32 / 4.0], "dir": [0, 0, dz]}),
                            );
                        }
                    }
                }
            }
        }
        if poly_inside > 0 {
            acc.nontrivial_polys += 1;
        }
        acc.outcomes.insert(poly_inside);
    });
    let (mut calls, mut hits, mut ntp) = (0, 0, 0);
    for a in &accs {
        calls += a.calls;
        hits += a.inside_hits;
        ntp += a.nontrivial_polys;
        ctx.outcome_merge(&a.outcomes);
    }
    ctx.eval(calls);
    ctx.nontriv(ntp);
    ctx.note("polygons", json!({"simple_polygons": polys.len(), "tri+quad": n34, "poses": poses.len(), "ray_polygon_calls": calls, "expected_hits": hits}));
    ctx.sample(json!({"kind": "polygon", "polygon": polys[polys.len() / 2], "pose": format!("{:?}", poses[7])}));
}

// ------------------------------------------------------------------ (c) reveals

fn run_reveals(ctx: &Ctx) {
    let setbacks = [0.05f32, 0.2, 1.0];
    let wins: [[f32; 4]; 3] = [[1.0, 1.0, 2.0, 1.5], [0.0, 0.0, 1.0, 1.0], [2.5, 0.5, 0.6, 2.0]];
    let tilts = [90.0f32, 60.0, 45.0, 0.0, 135.0, 180.0];
    let azs = [0.0f32, 45.0, 90.0, -120.0, 180.0];
    let mut n = 0u64;
    for &tilt in &tilts {
        for &az in &azs {
            for pos in POSS {
                for &sb in &setbacks {
                    for (wi, w) in wins.into_iter().enumerate() {
                      // outline of the wall: starting at the local origin along +x; shifted in its plane; listed from its third
                      // corner (windows are placed in the frame of the outline: origin at its first vertex, x along its first edge)
                      for ov in 0..(if wi == 0 { 3 } else { 1 }) {
                        n += 1;
                        ctx.eval(1);
                        let outline: Polygon = match ov {
                            0 => rect(5.0, 3.0),
                            1 => vec![point![2.0, 1.0], point![7.0, 1.0], point![7.0, 4.0], point![2.0, 4.0]],
                            _ => vec![point![5.0, 3.0], point![0.0, 3.0], point![0.0, 0.0], point![5.0, 0.0]],
                        };
                        let og = geom(tilt, az, Some(pos), outline.clone());
                        let mut m = Model::default();
                        m.spaces.push(space("S1", SpaceType::CONDITIONED, true, 3.0));
                        m.walls.push(wall("w0", BoundaryType::EXTERIOR, nil(), uid("S1"), None, og.clone()));
                        m.windows.push(window("v0", nil(), uid("w0"), Some([w[0], w[1]]), w[2], w[3], sb));
                        let case = json!({"kind": "reveal", "tilt": tilt, "azimuth": az, "position": pos, "setback": sb, "window(x,y,w,h)": w, "outline(0 at origin,1 shifted,2 from third corner)": ov});
                        let occ = m.collect_occluders();
                        let quads: Vec<Vec<[f64; 3]>> = occ
                            .iter()
                            .filter(|o| o.linked_to_id == Some(uid("v0")))
                            .map(|o| {
                                let inv = o.trans_matrix.unwrap().inverse();
                                o.polygon.iter().map(|p| { let q = inv * point![p.x, p.y, 0.0]; [q.x as f64, q.y as f64, q.z as f64] }).collect()
                            })
                            .collect();
                        let (x, y, ww, hh, s) = (w[0] as f64, w[1] as f64, w[2] as f64, w[3] as f64, sb as f64);
                        let tw = |l: [f64; 3]| to_world(tilt, az, pos, crate::geo::poly_frame_to_local(&og, l[0], l[1], l[2]));
                        let tw_local = |l: [f64; 3]| to_world(tilt, az, pos, l);
                        let expected_local: Vec<Vec<[f64; 3]>> = vec![
                            vec![tw_local([x, y + hh, 0.0]), tw_local([x + ww, y + hh, 0.0]), tw_local([x + ww, y + hh, -s]), tw_local([x, y + hh, -s])],
                            vec![tw_local([x, y, 0.0]), tw_local([x, y + hh, 0.0]), tw_local([x, y + hh, -s]), tw_local([x, y, -s])],
                            vec![tw_local([x + ww, y, 0.0]), tw_local([x + ww, y + hh, 0.0]), tw_local([x + ww, y + hh, -s]), tw_local([x + ww, y, -s])],
                            vec![tw_local([x, y, 0.0]), tw_local([x + ww, y, 0.0]), tw_local([x + ww, y, -s]), tw_local([x, y, -s])],
                        ];
                        let expected: Vec<(&str, Vec<[f64; 3]>)> = vec![
                            ("top", vec![tw([x, y + hh, 0.0]), tw([x + ww, y + hh, 0.0]), tw([x + ww, y + hh, -s]), tw([x, y + hh, -s])]),
                            ("left", vec![tw([x, y, 0.0]), tw([x, y + hh, 0.0]), tw([x, y + hh, -s]), tw([x, y, -s])]),
                            ("right", vec![tw([x + ww, y, 0.0]), tw([x + ww, y + hh, 0.0]), tw([x + ww, y + hh, -s]), tw([x + ww, y, -s])]),
                            ("sill", vec![tw([x, y, 0.0]), tw([x + ww, y, 0.0]), tw([x + ww, y, -s]), tw([x, y, -s])]),
                        ];
                        if quads.len() != 4 {
                            ctx.violation("reveal:count", &format!("{} reveal surfaces generated, expected 4", quads.len()), case.clone());
                            continue;
                        }
                        ctx.nontriv(1);
                        let same = |a: &Vec<[f64; 3]>, b: &Vec<[f64; 3]>| a.len() == b.len() && a.iter().all(|p| b.iter().any(|q| (p[0] - q[0]).abs() < 1e-3 && (p[1] - q[1]).abs() < 1e-3 && (p[2] - q[2]).abs() < 1e-3));
                        // what the code does today for outlines that are not anchored at the local origin: all four surfaces where
                        // the window would be if its position were wall-local coordinates (one finding, not four)
                        if ov != 0 && expected.iter().any(|(_, e)| !quads.iter().any(|q| same(q, e) && same(e, q))) && expected_local.iter().all(|e| quads.iter().any(|q| same(q, e) && same(e, q))) {
                            ctx.violation("reveal:placed-in-wall-local-coordinates-not-in-the-frame-of-the-outline", "the four reveal surfaces lie where the window would be if its position were wall-local coordinates; the window (its sample points) lives in the frame of the wall outline", json!({"case": case, "generated": quads}));
                            continue;
                        }
                        for (name, e) in &expected {
                            if !quads.iter().any(|q| same(q, e) && same(e, q)) {
                                let vertical = (tilt - 90.0).abs() < 1e-3;
                                let key = format!("reveal:{}:{}", name, if vertical { "vertical-wall" } else { "wall tilt!=90" });
                                ctx.violation(&key, &format!("no generated reveal surface spans the {} edge gap (expected corners {:?})", name, e), json!({"case": case, "generated": quads}));
                            }
                        }
                        ctx.outcome(&format!("{:?}", quads.iter().map(|q| q.iter().map(|p| [(p[0] * 100.0).round() as i64, (p[1] * 100.0).round() as i64, (p[2] * 100.0).round() as i64]).collect::<Vec<_>>()).collect::<Vec<_>>()));
                      }
                    }
                }
            }
        }
    }
    // a window that cannot have reveal surfaces (its wall is unknown / has no position) listed before an ordinary
    // set-back window: the second one still gets its four surfaces
    for bad in 0..3 {
        ctx.eval(1);
        let mut m = Model::default();
        m.spaces.push(space("S1", SpaceType::CONDITIONED, true, 3.0));
        m.walls.push(wall("w0", BoundaryType::EXTERIOR, nil(), uid("S1"), None, geom(90.0, 0.0, Some([0.0, 0.0, 0.0]), rect(5.0, 3.0))));
        m.walls.push(wall("w1", BoundaryType::EXTERIOR, nil(), uid("S1"), None, geom(90.0, 90.0, None, rect(5.0, 3.0))));
        match bad {
            0 => m.windows.push(window("vbad", nil(), uid("no-such-wall"), Some([1.0, 1.0]), 1.0, 1.0, 0.2)),
            1 => m.windows.push(window("vbad", nil(), uid("w1"), Some([1.0, 1.0]), 1.0, 1.0, 0.2)),
            _ => m.windows.push(window("vbad", nil(), uid("w0"), None, 1.0, 1.0, 0.2)),
        }
        m.windows.push(window("v0", nil(), uid("w0"), Some([1.0, 1.0]), 2.0, 1.5, 0.2));
        let n_good = m.collect_occluders().iter().filter(|o| o.linked_to_id == Some(uid("v0"))).count();
        if n_good != 4 {
            ctx.violation("reveal:count:after-a-window-without-reveals", &format!("{} reveal surfaces for a set-back window listed after a window {}; expected 4", n_good, ["whose wall is unknown", "whose wall has no position", "without position"][bad]), json!({"kind": "reveal", "first_window_kind": bad}));
        }
    }
    // setback 0 -> no reveal
    let mut m = Model::default();
    m.walls.push(wall("w0", BoundaryType::EXTERIOR, nil(), uid("S1"), None, geom(90.0, 0.0, Some([0.0, 0.0, 0.0]), rect(5.0, 3.0))));
    m.windows.push(window("v0", nil(), uid("w0"), Some([1.0, 1.0]), 1.0, 1.0, 0.0));
    if m.collect_occluders().iter().any(|o| o.linked_to_id.is_some()) {
        ctx.violation("reveal:setback0", "reveal surfaces generated for a window without setback", json!({"kind": "reveal", "setback": 0}));
    }
    ctx.note("reveals", json!({"cases": n}));
    ctx.sample(json!({"kind": "reveal", "tilt": 90, "azimuth": 45, "setback": 0.2, "window": [1.0, 1.0, 2.0, 1.5]}));
}

pub fn run(ctx: &Ctx) -> i32 {
    let bvh_terminates = run_bvh(ctx);
    run_aabb_and_wallgeom(ctx, bvh_terminates);
    run_polys(ctx);
    run_reveals(ctx);
    ctx.finish(
        "model_checking",
        "(a) BVH: all sequences of length 0..L over an 8-box alphabet on the {0..3}^3 grid (flat, point, two boxes with identical centres; L=4 quick / 5 thorough) x leaf size {1,2,3,30} x 88 rays (incl. directions with -0.0 components), n copies of one element, collinear centres, centres coinciding on the split axis (also at values that are not binary fractions: 4.05, 0.1, 0.7, 1e-3, 123456.7, -2.3), prefixes of a 216-box lattice, 20 / 40 / 74 boxes whose centres grow geometrically (ratio 10 from 1e-36, ratio 50 from 1e-30: a tree as deep as the set is large) with one ray through each box, shade sets through BVH<&Occluder>; each build runs in a supervised worker process (watchdog, 4 GiB) and BVH.intersects(r).is_some() is compared with testing every obstacle; AABB::intersects itself against an f64 slab test for 48 boxes x 88 rays, and BVH over plain polygons (no box pre-check on the element side) against the one-by-one polygon test; 2..40 complementary triangles of one rectangle (identical boxes, different polygons, all centres coinciding) x leaf size {1,2,30} x an 80-ray grid over the rectangle; (b) all simple polygons (general position) with 3..4 vertices on the 4x4 grid (+5-gons 4x4 and 6-gons 3x3 in thorough, 5-gons 3x3 in quick; + three outlines with a corner in the middle of a side, listed from every corner in both senses) x poses (tilt{0,30,90,135,180} x az{0,45,90,-120,180} x 2 positions) x 64 quarter-lattice targets x 4 directions (one grazing the plane at 0.3 degrees) x {front-towards, front-away, behind-towards, parallel} against exact integer point-in-polygon (targets on the outline skipped) + AABB containment; (c) reveal quads for setback{.05,.2,1} x 3 window rects x 6 tilts x 5 azimuths x 2 positions against the wall's own transform, the first window also with the wall outline shifted in its plane and listed from its third corner; a set-back window listed after a window that cannot have reveals; non-trivial = non-empty obstacle set / polygon with at least one expected hit / 4 reveal quads generated",
        true,
        json!({}),
    )
}
