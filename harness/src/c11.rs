//! C11 (d) — every f32 angle in [-720, 1080]: Tilt / Orientation classes depend only on the angle mod 360
//! (reference: exact f64 rem_euclid + the documented thresholds); parser and model classify tilts in [0,360] alike.

use crate::common::*;
use crate::ind::{orient_class, tilt_class, TiltC};
use bemodel::{Orientation, Tilt};
use serde_json::json;

const TILT_TH: [f64; 4] = [60.0, 120.0, 240.0, 300.0];
const OR_TH: [f64; 8] = [18.0, 69.0, 120.0, 157.5, 202.5, 240.0, 291.0, 342.0];

fn near(x: f64, ths: &[f64]) -> bool {
    let r = x.rem_euclid(360.0);
    ths.iter().any(|t| (r - t).abs() < 1e-4) || r < 1e-4 || r > 360.0 - 1e-4
}

fn tilt_name(t: Tilt) -> TiltC {
    match t {
        Tilt::TOP => TiltC::Top,
        Tilt::SIDE => TiltC::Side,
        Tilt::BOTTOM => TiltC::Bottom,
    }
}

fn orient_name(o: Orientation) -> &'static str {
    match o {
        Orientation::N => "N",
        Orientation::NE => "NE",
        Orientation::E => "E",
        Orientation::SE => "SE",
        Orientation::S => "S",
        Orientation::SW => "SW",
        Orientation::W => "W",
        Orientation::NW => "NW",
        Orientation::HZ => "HZ",
    }
}

pub fn sweep(ctx: &Ctx) -> u64 {
    let stride: u64 = ctx.tier.pick(8, 1);
    let offset: u64 = if stride > 1 { ctx.seed % stride } else { 0 };
    let pos_max = 1080.0f32.to_bits() as u64;
    let neg_max = (720.0f32.to_bits()) as u64; // magnitude bits
    let total = pos_max + 1 + neg_max + 1;
    let n = total / stride;
    #[derive(Default)]
    struct A {
        n: u64,
        band: u64,
        classes: std::collections::HashSet<u64>,
    }
    let accs = par_fold(n, |k, a: &mut A| {
        let i = k * stride + offset;
        let bits: u32 = if i <= pos_max { i as u32 } else { 0x8000_0000u32 | ((i - pos_max - 1) as u32) };
        let x = f32::from_bits(bits);
        a.n += 1;
        let xf = x as f64;
        // tilt
        let t = tilt_name(Tilt::from(x));
        let te = tilt_class(xf);
        if t != te {
            if near(xf, &TILT_TH) {
                a.band += 1;
            } else {
                ctx.violation("Tilt::from:class", &format!("Tilt::from({:?}) = {:?}, expected {:?} (angle mod 360 = {})", x, t, te, xf.rem_euclid(360.0)), json!({"angle": x, "bits": bits}));
            }
        }
        let o = orient_name(Orientation::from(x));
        let oe = orient_class(xf);
        if o != oe {
            if near(xf, &OR_TH) {
                a.band += 1;
            } else {
                ctx.violation("Orientation::from:class", &format!("Orientation::from({:?}) = {}, expected {} (angle mod 360 = {})", x, o, oe, xf.rem_euclid(360.0)), json!({"angle": x, "bits": bits}));
            }
        }
        // parser vs model for tilts in [0, 360]
        if x >= 0.0 && x <= 360.0 {
            let w = hulc::bdl::Wall { tilt: x, ..Default::default() };
            let p = match w.position() {
                hulc::bdl::Tilt::TOP => TiltC::Top,
                hulc::bdl::Tilt::SIDE => TiltC::Side,
                hulc::bdl::Tilt::BOTTOM => TiltC::Bottom,
            };
            if p != t {
                ctx.violation("tilt:parser-vs-model", &format!("tilt {:?}: parser says {:?}, model says {:?}", x, p, t), json!({"angle": x, "bits": bits}));
            }
        }
        if a.n % 4096 == 1 {
            a.classes.insert(hash64(&(t as u8, o)));
        }
    });
    let mut tot = 0;
    let mut band = 0;
    for a in &accs {
        tot += a.n;
        band += a.band;
        ctx.outcome_merge(&a.classes);
    }
    ctx.eval(tot);
    ctx.note("angle_sweep", json!({"f32_values": tot, "stride": stride, "offset": offset, "exhaustive": stride == 1, "band_accepted": band, "range": "[-720, 1080]"}));
    tot
}
