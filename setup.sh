#!/bin/bash
# Offline build of the harness (path-dependencies on /repo) and of the repo's own binaries
# used by C01/C05 (built WITHOUT the verification cfg, into .cache/target-repo).
set -e
V="$(cd "$(dirname "$0")" && pwd)"
cd "$V"
export CARGO_NET_OFFLINE=true
mkdir -p .cache
[ -f harness/Cargo.lock ] || cp /repo/Cargo.lock harness/Cargo.lock
(cd harness && cargo build --offline 2>&1 | tail -3)
(cd /repo && CARGO_TARGET_DIR="$V/.cache/target-repo" cargo build --offline -p hulc2model -p bemodel --bins 2>&1 | tail -3)
echo setup done
