#!/usr/bin/env python3
"""Applies each property-preserving change kept under /verif/benign/*.diff to /repo, runs every quick check,
expects exit 0 and no VIOLATION line, reverts. Usage: tools/benign.py [name-prefix ...] [--only C01,C02]"""
import json, subprocess, sys, os, glob, time
V = os.path.dirname(os.path.dirname(os.path.abspath(__file__)))
sel = [a for a in sys.argv[1:] if not a.startswith("--")]
only = [a.split("=",1)[1].split(",") for a in sys.argv[1:] if a.startswith("--only=")]
props = only[0] if only else [f"C{i:02d}" for i in range(1,21)]
jobs = max([int(a.split("=",1)[1]) for a in sys.argv[1:] if a.startswith("--jobs=")] or [1])
assert subprocess.run(["git","-C","/repo","status","--porcelain","--untracked-files=no"],capture_output=True,text=True).stdout.strip()=="", "/repo dirty"
rows=[]
for f in sorted(glob.glob(f"{V}/benign/*.diff")):
    name=os.path.basename(f)[:-5]
    if sel and not any(name.startswith(s) for s in sel): continue
    try:
        r = subprocess.run(["git","-C","/repo","apply",f],capture_output=True,text=True)
        if r.returncode != 0:
            print(name,"PATCH-DOES-NOT-APPLY",r.stderr[:100]); rows.append((name,"-","PATCH-DOES-NOT-APPLY")); continue
        def one(p):
            r = subprocess.run([f"{V}/run.sh", p, "quick"], capture_output=True, text=True, cwd=V)
            bad = r.returncode!=0 or any(l.startswith("VIOLATION") for l in r.stdout.splitlines())
            keys=[l.strip() for l in r.stdout.splitlines() if l.strip().startswith("key=")]
            if bad and jobs > 1:
                # an alarm under parallel load is re-examined alone before it counts
                r = subprocess.run([f"{V}/run.sh", p, "quick"], capture_output=True, text=True, cwd=V)
                bad = r.returncode!=0 or any(l.startswith("VIOLATION") for l in r.stdout.splitlines())
                keys=[l.strip() for l in r.stdout.splitlines() if l.strip().startswith("key=")]
            if bad: print(name,p,"ALARM exit",r.returncode,keys[:2],flush=True)
            return (name,p,"ALARM" if bad else "silent", keys[:2])
        # first check alone (it rebuilds the harness against the patched tree), the rest `jobs` at a time
        rows.append(one(props[0]))
        from concurrent.futures import ThreadPoolExecutor
        with ThreadPoolExecutor(jobs) as ex:
            rows.extend(ex.map(one, props[1:]))
        print(name,"done", sum(1 for x in rows if x[0]==name and x[2]=="silent"),"silent of",len(props),flush=True)
    finally:
        subprocess.run(["git","-C","/repo","checkout","--","."],check=True)
prev = []
try:
    prev = [r for r in json.load(open(f"{V}/benign/last_results.json")) if (r[0], r[1]) not in {(x[0], x[1]) for x in rows}]
except Exception:
    pass
json.dump(prev + [list(r) for r in rows], open(f"{V}/benign/last_results.json","w"), indent=1)
