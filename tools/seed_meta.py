#!/usr/bin/env python3
"""usage: tools/seed_meta.py <id> '<confirm json>' — merges my confirmation into seeded/<id>/meta.json"""
import json, sys
sid=sys.argv[1]; conf=json.loads(sys.argv[2])
p=f"/verif/seeded/{sid}/meta.json"
m=json.load(open(p))
m["breaks_property"]=m.get("property",sid)
m["needs_to_manifest"]=m.get("needs","")
m["confirmed"]={"how":"tools/confirm_seed.sh in the scratch worktree /tmp/wt-"+sid+" (git apply patch.diff; cargo test --workspace --offline; demonstration with and without the change)", **conf}
json.dump(m,open(p,"w"),indent=1,ensure_ascii=False)
