#!/usr/bin/env python3
"""Applies each mutant of mutants/mutants.json to /repo's working tree, runs the mapped quick checks,
expects exit 1 + VIOLATION, reverts. Usage: tools/mutants.py [id-prefix ...] [--suite]"""
import json, subprocess, sys, os, time
V = os.path.dirname(os.path.dirname(os.path.abspath(__file__)))
muts = json.load(open(f"{V}/mutants/mutants.json"))
sel = [a for a in sys.argv[1:] if not a.startswith("--")]
suite = "--suite" in sys.argv
res = []
def clean():
    subprocess.run(["git","-C","/repo","checkout","--","."],check=True)
assert subprocess.run(["git","-C","/repo","status","--porcelain","--untracked-files=no"],capture_output=True,text=True).stdout.strip()=="" , "/repo has uncommitted changes"
for m in muts:
    if sel and not any(m["id"].startswith(s) for s in sel): continue
    p = "/repo/" + m["file"]
    s = open(p).read()
    if m["old"] not in s:
        res.append((m["id"], "PATTERN-NOT-FOUND", "")); print(m["id"], "PATTERN NOT FOUND"); continue
    try:
        open(p, "w").write(s.replace(m["old"], m["new"], 1))
        for e in m.get("more", []):
            pp = "/repo/" + e["file"]
            ss = open(pp).read()
            assert e["old"] in ss, ("pattern not found", e["file"], e["old"][:40])
            open(pp, "w").write(ss.replace(e["old"], e["new"], 1))
        suite_ok = ""
        if suite:
            r = subprocess.run("cd /repo && CARGO_NET_OFFLINE=true cargo test --workspace --no-fail-fast --offline 2>&1 | grep -E '^test result' | awk '{p+=$4; f+=$6} END {print p, f}'", shell=True, capture_output=True, text=True)
            suite_ok = r.stdout.strip()
        for prop in m["props"]:
            t0 = time.time()
            r = subprocess.run([f"{V}/run.sh", prop, "quick"], capture_output=True, text=True, cwd=V)
            viol = [l for l in r.stdout.splitlines() if l.startswith("VIOLATION")]
            keys = [l.strip() for l in r.stdout.splitlines() if l.strip().startswith("key=")]
            verdict = "CAUGHT" if r.returncode == 1 and viol else ("MISSED" if r.returncode == 0 else f"EXIT{r.returncode}")
            print(f'{m["id"]:24s} {prop} {verdict:7s} {time.time()-t0:5.1f}s suite[{suite_ok}] {keys[0][:110] if keys else ""}', flush=True)
            res.append((m["id"], prop, verdict, suite_ok, keys[0] if keys else ""))
    finally:
        clean()
json.dump(res, open(f"{V}/mutants/last_results.json", "w"), indent=1)
missed = [r for r in res if r[2] != "CAUGHT"]
print("missed:", missed)
