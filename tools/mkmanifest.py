#!/usr/bin/env python3
"""Regenerates /verif/MANIFEST.json from the table below (keeps it valid at all times)."""
import json, subprocess, os
V = os.path.dirname(os.path.dirname(os.path.abspath(__file__)))
props = [json.loads(l) for l in open(f"{V}/properties.jsonl")]
hook = subprocess.run(["git","-C","/repo","log","--format=%H","--grep=^verif hook"],capture_output=True,text=True).stdout.split()

# id -> (category, technique, engine, text, note, design_ref)
T = json.load(open(f"{V}/tools/checks.json"))
checks, na = [], []
for p in props:
    i = p["id"]
    if i in T and T[i].get("claimed", True):
        c = T[i]
        checks.append({
            "property_id": i,
            "quick_cmd": f"./run.sh {i} quick",
            "thorough_cmd": f"./run.sh {i} thorough",
            "evidence_file": f"/verif/evidence/{i}.json",
            "replay_cmd_template": "./run.sh replay {path}",
            "engine": c["engine"],
            "level_claimed": {"category": c["category"], "text": c["text"], "design_ref": c.get("design_ref", f"DESIGN.md §3 {i}")},
            "level_note": c["note"],
            "technique": c["technique"],
        })
    else:
        na.append({"property_id": i, "reason": T.get(i, {}).get("reason", "check not built yet (work in progress); not claimed until its machinery runs and is quiet on the unchanged tree")})
m = {
    "version": 1,
    "setup_cmd": "./setup.sh",
    "hooks": {
        "guard": "cfg(cteenergymodel_verif)",
        "enable": "RUSTFLAGS=--cfg cteenergymodel_verif via /verif/harness/.cargo/config.toml (harness build only; path dependencies on /repo/{bemodel,hulc,climate,hulc2model})",
        "baseline_off_cmd": "cd /repo && cargo test --workspace --no-fail-fast --offline",
        "source_commits": hook,
        "add_only": True,
    },
    "engines": [
        {"name": "cte-mc", "path": "/verif/harness", "serves_properties": [c["property_id"] for c in checks],
         "kind_free_text": "Rust harness driving the real crates: E1 bounded-exhaustive enumerator (mixed-radix products), E2 isolation supervisor (worker processes, watchdog, panic-site capture), E3 explicit-state BFS over operation sequences, E4 controlled scheduler over the three hooked lock sites, E5 process runs of the built binaries"}
    ],
    "checks": checks,
    "not_applicable": na,
    "notes": "See DESIGN.md. Exit codes of every command: 0 held, 1 VIOLATION (line printed), 2 machinery error. known_findings.txt lists open findings / fixed defects.",
}
json.dump(m, open(f"{V}/MANIFEST.json","w"), indent=1, ensure_ascii=False)
print("claimed", [c["property_id"] for c in checks])
