#!/bin/bash
# usage: tools/confirm_seed.sh <id> <crate> <demo-file> [test-name]
# Confirms a seeded change in the scratch worktree /tmp/wt-<id>: (1) suite passes with the change,
# (2) demonstration fails with the change, (3) passes without. Prints a JSON summary.
id=$1; crate=$2; demo=$3; tname=${4:-$(basename $demo .rs)}
W=/tmp/wt-$id; S=/verif/seeded/$id
cd $W || exit 2
git checkout -q -- . ; rm -f $crate/tests/$(basename $demo)
export CARGO_NET_OFFLINE=true
git apply $S/patch.diff || { echo "patch does not apply"; exit 2; }
suite=$(cargo test --workspace --no-fail-fast --offline 2>&1 | grep -E "^test result" | awk '{p+=$4; f+=$6} END {print p" passed, "f" failed"}')
mkdir -p $crate/tests; cp $S/$demo $crate/tests/
with=$(cargo test -p $crate --test $tname --offline 2>&1 | grep -E "^test result|panicked" | head -3 | tr '\n' ' ')
git apply -R $S/patch.diff
without=$(cargo test -p $crate --test $tname --offline 2>&1 | grep -E "^test result" | head -2 | tr '\n' ' ')
rm -f $crate/tests/$(basename $demo); git checkout -q -- .
echo "{\"id\":\"$id\",\"suite_with_change\":\"$suite\",\"demo_with_change\":\"${with//\"/\'}\",\"demo_without_change\":\"$without\"}"
