#!/usr/bin/env python3
"""Runs the checks against the changes kept under /verif/seeded/<id>/ (patch.diff + meta.json):
git apply in /repo, run the property's quick (and with --thorough also thorough) command, revert.
Usage: tools/seeded.py [id ...] [--thorough]"""
import json, subprocess, sys, os, glob, time
V = os.path.dirname(os.path.dirname(os.path.abspath(__file__)))
sel = [a for a in sys.argv[1:] if not a.startswith("--")]
tiers = ["quick"] + (["thorough"] if "--thorough" in sys.argv else [])
assert subprocess.run(["git","-C","/repo","status","--porcelain","--untracked-files=no"],capture_output=True,text=True).stdout.strip()=="", "/repo dirty"
rows = []
for d in sorted(glob.glob(f"{V}/seeded/*/")):
    sid = os.path.basename(d.rstrip("/"))
    if sel and sid not in sel: continue
    meta = json.load(open(d + "meta.json"))
    props = meta.get("checks") or [meta["property"]]
    try:
        r = subprocess.run(["git","-C","/repo","apply",d+"patch.diff"],capture_output=True,text=True)
        if r.returncode != 0:
            rows.append((sid, "-", "-", "PATCH-DOES-NOT-APPLY", r.stderr[:100])); continue
        for prop in props:
            for tier in tiers:
                t0=time.time()
                r = subprocess.run([f"{V}/run.sh", prop, tier], capture_output=True, text=True, cwd=V)
                keys=[l.strip() for l in r.stdout.splitlines() if l.strip().startswith("key=")]
                verdict = "CAUGHT" if r.returncode==1 and any(l.startswith("VIOLATION") for l in r.stdout.splitlines()) else ("MISSED" if r.returncode==0 else f"EXIT{r.returncode}")
                rows.append((sid, prop, tier, verdict, keys[0][:160] if keys else ""))
                print(sid, prop, tier, verdict, f"{time.time()-t0:.0f}s", keys[0][:140] if keys else "", flush=True)
    finally:
        subprocess.run(["git","-C","/repo","checkout","--","."],check=True)
json.dump(rows, open(f"{V}/seeded/last_results.json","w"), indent=1)
